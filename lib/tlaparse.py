"""Parse the TLA+ values TLC prints with PrintT (tuples, sets, strings, integers, booleans).

TLC pretty-prints long values over several lines, so the output is tokenised as one stream and
top-level values are reassembled by bracket matching."""
import re

_tok = re.compile(r'<<|>>|\{|\}|,|"(?:[^"\\]|\\.)*"|-?\d+|TRUE|FALSE')


def values(text, head=None):
    """Yield every top-level <<...>> value in text as nested Python lists (sets become lists too).
    If head is given, only values whose first element equals head are yielded."""
    depth = 0
    stack = []
    cur = None
    for m in _tok.finditer(text):
        t = m.group(0)
        if t == '<<' or t == '{':
            new = []
            if depth:
                cur.append(new)
                stack.append(cur)
            cur = new
            depth += 1
        elif t == '>>' or t == '}':
            if depth == 0:
                continue
            depth -= 1
            if depth == 0:
                v = cur
                cur = None
                if head is None or (v and v[0] == head):
                    yield v
            else:
                cur = stack.pop()
        elif t == ',':
            continue
        else:
            if depth == 0:
                continue
            if t[0] == '"':
                cur.append(t[1:-1])
            elif t == 'TRUE':
                cur.append(True)
            elif t == 'FALSE':
                cur.append(False)
            else:
                cur.append(int(t))


def values_stream(lines, head=None):
    """values() over an iterable of lines (a file): constant memory.  No token spans a line in TLC's output."""
    depth = 0
    stack = []
    cur = None
    for line in lines:
        for m in _tok.finditer(line):
            t = m.group(0)
            if t == '<<' or t == '{':
                new = []
                if depth:
                    cur.append(new)
                    stack.append(cur)
                cur = new
                depth += 1
            elif t == '>>' or t == '}':
                if depth == 0:
                    continue
                depth -= 1
                if depth == 0:
                    v = cur
                    cur = None
                    if head is None or (v and v[0] == head):
                        yield v
                else:
                    cur = stack.pop()
            elif t == ',':
                continue
            else:
                if depth == 0:
                    continue
                if t[0] == '"':
                    cur.append(t[1:-1])
                elif t == 'TRUE':
                    cur.append(True)
                elif t == 'FALSE':
                    cur.append(False)
                else:
                    cur.append(int(t))


def tlc_lines(text):
    """Only the part of TLC's stdout that can contain PrintT output (drop banner noise with braces)."""
    out = []
    for line in text.splitlines():
        s = line.lstrip()
        if s.startswith('<<') or s.startswith('"') or s.startswith('{') or s.startswith('>>') or s[:1].isdigit() or s.startswith('-'):
            out.append(line)
        elif out and (line.startswith('   ') or line.startswith('\t')):
            out.append(line)
    return '\n'.join(out)
