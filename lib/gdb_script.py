# Run inside gdb:  gdb -batch -x gdb_script.py --args <driver> <stimuli> 0 0 0
# Stops at gdb_checkpoint() after every logged call and dumps what the SHIPPED pretty-printers show for the
# containers and iterators, plus the values of the member paths the Visual Studio natvis uses.
import json
import os
import re
import sys

import gdb

sys.path.insert(0, os.path.join(os.environ.get('REPO_ROOT', '/repo'), 'source', 'support', 'python'))
import gch.gdb.prettyprinters.small_vector  # noqa: E402,F401  (registers the printers)

OUT = open(os.environ['GDB_OUT'], 'w')
gdb.execute('set pagination off')
gdb.execute('set print pretty off')
gdb.execute('break gdb_checkpoint')
gdb.execute('run %s > %s' % (os.environ['GDB_ARGS'], os.environ['GDB_TRACE']))


def elem_value(v):
    t = v.type.strip_typedefs()
    if t.code == gdb.TYPE_CODE_STRUCT:
        return int(v['v'])
    return int(v)


def view(expr):
    val = gdb.parse_and_eval(expr)
    pr = gdb.default_visualizer(val)
    if pr is None:
        return dict(printer=False)
    s = pr.to_string()
    m = re.match(r'small_vector of length (\d+), capacity (\d+)', s)
    kids = [elem_value(v) for (_, v) in pr.children()]
    nat = {}
    try:
        # the member paths of source/support/visualstudio/small_vector.natvis
        nat['m_size'] = int(val['m_data']['m_size'])
        nat['m_capacity'] = int(val['m_data']['m_capacity'])
        dp = val['m_data']['m_data_ptr']
        nat['first'] = elem_value(dp.dereference()) if nat['m_size'] > 0 else -1
        nat['inline_capacity_v'] = int(val['inline_capacity_v'])
        nat['ok'] = True
    except Exception as e:      # noqa
        nat['ok'] = False
        nat['err'] = str(e)[:200]
    return dict(printer=True, hint=pr.display_hint() or '', len=int(m.group(1)) if m else -1, cap=int(m.group(2)) if m else -1, elems=kids, natvis=nat, text=s)


def it_view(expr):
    val = gdb.parse_and_eval(expr)
    pr = gdb.default_visualizer(val)
    if pr is None:
        return dict(printer=False)
    s = pr.to_string()
    m = re.search(r'v = (-?\d+)', s)
    natok = True
    try:
        val['m_ptr']
    except Exception:   # noqa
        natok = False
    return dict(printer=True, text=s[:120], value=(int(m.group(1)) if m else (int(s) if re.fullmatch(r'-?\d+', s) else -1000000)), m_ptr=natok)


while True:
    try:
        if gdb.selected_inferior().pid == 0:
            break
        rec = dict(t='gdb', id=gdb.parse_and_eval('g_gdb_id').string(), i=int(gdb.parse_and_eval('g_gdb_idx')))
        pa = int(gdb.parse_and_eval('g_present[0]'))
        pb = int(gdb.parse_and_eval('g_present[1]'))
        rec['A'] = view('*(VA *) g_mem[0].obj') if pa else None
        rec['B'] = view('*(VB *) g_mem[1].obj') if pb else None
        rec['it_index'] = int(gdb.parse_and_eval('g_gdb_it_index'))
        rec['it'] = it_view('g_gdb_it')
        rec['cit'] = it_view('g_gdb_cit')
        OUT.write(json.dumps(rec) + '\n')
        gdb.execute('continue')
    except gdb.error as e:
        if 'not being run' in str(e) or 'No thread' in str(e):
            break
        OUT.write(json.dumps(dict(t='gdberror', err=str(e)[:300])) + '\n')
        break
OUT.close()
