"""Jobs: (MC instance -> stimuli) x (driver configuration) x fault mode, sharded over all cores."""
import concurrent.futures as cf
import hashlib
import json
import os
import random
import shutil
import threading
import time

import pipeline as P

_pool = None
_pool_lock = threading.Lock()


def pool():
    global _pool
    with _pool_lock:
        if _pool is None:
            # shards run in worker PROCESSES: joining TLC's verdicts with the trace (JSON parsing, hashing) is pure Python and
            # would otherwise serialise on the interpreter lock (the thorough tier validates tens of millions of lines)
            import multiprocessing
            _pool = cf.ProcessPoolExecutor(max_workers=max(2, P.NCPU - 1), mp_context=multiprocessing.get_context('spawn'))
        return _pool


def h12(s):
    return hashlib.sha256(s.encode()).hexdigest()[:12]


def h64(s):
    return int.from_bytes(hashlib.blake2b(s.encode(), digest_size=8).digest(), 'little')


# Signatures of exercised lines are kept compactly: one 64-bit hash per distinct line signature plus a bit mask of the
# properties that line exercised non-trivially, in a binary side file of the job (sigs.bin); result.json stays small.
SIG_CAP = 5000000        # per property, a check stops counting distinct signatures beyond this (evidence says so)


def write_sigs(path, table):
    from array import array
    hs = array('Q', table.keys())
    ms = array('I', table.values())
    with open(path, 'wb') as f:
        f.write(len(hs).to_bytes(8, 'little'))
        hs.tofile(f)
        ms.tofile(f)


def read_sigs(path):
    from array import array
    with open(path, 'rb') as f:
        n = int.from_bytes(f.read(8), 'little')
        hs = array('Q')
        hs.fromfile(f, n)
        ms = array('I')
        ms.fromfile(f, n)
    return hs, ms


def sigs_of(r, prop):
    """Iterable of hashable signatures of the lines of result r that exercised prop."""
    out = list(r.get('sigs', {}).get(prop, []))
    files = list(r.get('sigfiles', []))
    if r.get('sigfile'):
        files.append(r['sigfile'])
    if prop in P.PROPS:
        bit = 1 << P.PROPS.index(prop)
        for f in files:
            if os.path.exists(f):
                hs, ms = read_sigs(f)
                out.extend(h for h, m in zip(hs, ms) if m & bit)
    return out


def _run_shard(jobdir, idx, lines, exe, fmode, cfgname, san, keep, l2=False):
    sdir = os.path.join(jobdir, 'shard%d' % idx)
    os.makedirs(sdir, exist_ok=True)
    stimf = os.path.join(sdir, 'stim.txt')
    with open(stimf, 'w') as f:
        f.writelines(lines)
    tracef = os.path.join(sdir, 'trace.ndjson')
    t0 = time.time()
    restarts = run_driver(exe, stimf, tracef, fmode, san)
    t1 = time.time()
    viol, hits, end = P.validate_trace(tracef, sdir, 't')
    names = sorted(P.LAST_NAMES)
    t2 = time.time()
    sigs, nlines, violations, ops = P.analyse(tracef, viol, hits, cfgname)
    l2_calls, l2_drift = 0, []
    if l2:
        try:
            l2_calls, l2_drift = P.validate_impl(tracef, sdir, 'l2')
        except RuntimeError:
            # L2 starts every call from the RECORDED pre-state.  Where L1 / L0 already rejected a line of this trace, a
            # later pre-state can lie outside what the implementation-shaped model can represent (a container pointing at
            # a block the ledger no longer holds, ...): that is the violation already reported, not a fault of the machinery.
            if not violations:
                raise
            l2_drift = [dict(line=0, op='-', what=['L2 could not be evaluated: the trace contains states that L1 rejects'], recorded='')]
    skipped = 0
    sample = []
    with open(tracef) as f:
        for i, line in enumerate(f):
            if '"t":"skip"' in line:
                skipped += 1
            if len(sample) < 6 and '"t":"op"' in line and (i % 97 == 3 or len(sample) == 0):
                sample.append(line.strip()[:1500])
    # keep what a replay needs for each violation: the stimulus text
    stim_by_id = {}
    for ln in lines:
        parts = ln.split(' ', 3)
        stim_by_id[parts[1]] = ln.strip()
    for v in violations:
        v['stimulus'] = stim_by_id.get(v.get('id'))
    table = {}
    for pi, p in enumerate(P.PROPS):
        for sg in sigs.get(p, ()):
            h = h64(sg)
            table[h] = table.get(h, 0) | (1 << pi)
    res = dict(lines=end, ops=ops, restarts=restarts, skipped=skipped, sample=sample,
               sigtable=table, names=names,
               nlines=nlines, violations=violations, t_driver=t1 - t0, t_tlc=t2 - t1, l2_calls=l2_calls, l2_drift=l2_drift[:20],
               l2_drift_n=len(l2_drift))
    if not keep and not violations:
        shutil.rmtree(sdir, ignore_errors=True)
    else:
        try:
            os.remove(stimf)
        except OSError:
            pass
        if not violations:
            shutil.rmtree(sdir, ignore_errors=True)
    return res


def run_driver(exe, stimfile, tracefile, fmode, san=False):
    import subprocess
    env = dict(os.environ)
    if san:
        env['ASAN_OPTIONS'] = 'abort_on_error=1:detect_leaks=0:handle_abort=0:allocator_may_return_null=1:handle_segv=0'
        env['UBSAN_OPTIONS'] = 'halt_on_error=1:abort_on_error=1:print_stacktrace=0'
    start, k = 0, 0
    restarts = 0
    with open(tracefile, 'wb') as out:
        while True:
            p = subprocess.run([exe, stimfile, str(start), str(k), str(fmode)], stdout=subprocess.PIPE,
                               stderr=subprocess.PIPE, env=env)
            data = p.stdout
            out.write(data)
            if p.returncode == 0:
                break
            idx = data.rfind(b'{"t":"stim"')
            if idx < 0 or restarts > 50000:
                raise RuntimeError('driver died without progress (rc=%s): %s' % (p.returncode, p.stderr.decode()[-2000:]))
            m = json.loads(data[idx:data.find(b'\n', idx)])
            if not data.endswith(b'\n'):
                out.write(b'\n')
            if p.returncode != 3:
                out.write(json.dumps({"t": "op", "id": m["id"], "i": -1, "op": "unknown", "c": "A", "s": "-", "a": [],
                                      "k": [m["k"], m.get("k2", 0)], "out": "crash"}).encode() + b'\n')
            # a fatal outcome without any injected fault: the fault variants of this stimulus are pointless
            start, k = (m['n'] + 1, 0) if m['k'] == 0 else (m['n'], m['k'] + 1)
            restarts += 1
    return restarts


def run_job(mc, drv, fmode=0, max_stims=None, seed=0, shard_size=None, keep=False, stim_file=None, label=None, l2=False):
    """Returns the merged result dict of one job (cached)."""
    if stim_file:
        st = dict(path=stim_file, key=P.file_sha(stim_file), generated=0, distinct=0, n=sum(1 for _ in open(stim_file)), consts={})
    elif 'Sim' in mc:
        mc2 = dict(mc)
        num, depth = mc2.pop('Sim')
        st = P.gen_stimuli_sim(mc2, num, depth, seed)
    else:
        st = P.gen_stimuli(mc)
    d = P.build_driver(drv)
    key = P.sha('job3', st['key'], d['key'], fmode, max_stims, seed, l2, P.spec_sha(), P.file_sha(os.path.join(P.ROOT, 'lib', 'pipeline.py')))
    jobdir = os.path.join(P.CACHE, 'job', key)
    resf = os.path.join(jobdir, 'result.json')
    with P.Lock(jobdir):
        if os.path.exists(resf):
            return json.load(open(resf))
        os.makedirs(jobdir, exist_ok=True)
        t0 = time.time()
        lines = open(st['path']).readlines()
        total = len(lines)
        if max_stims is not None and len(lines) > max_stims:
            # stratified sample: every distinct final call (operation + arguments) is represented before any
            # is represented twice; within a stratum the pre-state (path) is chosen at random from the seed
            rnd = random.Random(seed * 7919 + 13)
            strata = {}
            for i, ln in enumerate(lines):
                strata.setdefault(ln.rsplit(';', 1)[-1].split('|')[-1].strip(), []).append(i)
            for v in strata.values():
                rnd.shuffle(v)
            keys = sorted(strata)
            rnd.shuffle(keys)
            idxs = []
            depth = 0
            while len(idxs) < max_stims:
                progressed = False
                for k in keys:
                    if depth < len(strata[k]):
                        idxs.append(strata[k][depth])
                        progressed = True
                        if len(idxs) >= max_stims:
                            break
                depth += 1
                if not progressed:
                    break
            lines = [lines[i] for i in sorted(idxs)]
        if shard_size is None:
            # a TLC process costs ~3 s before its first line; aim for >= ~25k trace lines per shard
            shard_size = 500 if fmode >= 2 else (1200 if fmode == 1 else 6000)
        nshards = max(1, (len(lines) + shard_size - 1) // shard_size)
        per = (len(lines) + nshards - 1) // nshards
        shards = [lines[i:i + per] for i in range(0, len(lines), per)]
        futs = [pool().submit(_run_shard, jobdir, i, sh, d['exe'], fmode, d['name'], d['conf']['san'], keep, l2)
                for i, sh in enumerate(shards)]
        table = {}
        merged = dict(lines=0, ops=0, restarts=0, skipped=0, sample=[], nlines={}, violations=[],
                      t_driver=0.0, t_tlc=0.0, l2_calls=0, l2_drift_n=0, l2_drift=[], names=[])
        for f in futs:
            r = f.result()
            merged['names'] = sorted(set(merged['names']) | set(r.get('names', [])))
            for k in ('lines', 'ops', 'restarts', 'skipped', 't_driver', 't_tlc', 'l2_calls', 'l2_drift_n'):
                merged[k] += r[k]
            merged['l2_drift'] += r['l2_drift'][:5]
            if len(merged['sample']) < 4:
                merged['sample'] += r['sample'][:2]
            for h, m in r['sigtable'].items():
                table[h] = table.get(h, 0) | m
            r['sigtable'] = None
            for p, n in r['nlines'].items():
                merged['nlines'][p] = merged['nlines'].get(p, 0) + n
            merged['violations'] += r['violations']
        sigfile = os.path.join(jobdir, 'sigs.bin')
        write_sigs(sigfile, table)
        merged['sigfile'] = sigfile
        merged['nsigs'] = {p: sum(1 for m in table.values() if m & (1 << pi)) for pi, p in enumerate(P.PROPS)}
        table = None
        merged.update(stims=len(lines), stims_total=total, mc=dict(generated=st['generated'], distinct=st['distinct'],
                      n=st['n'], consts=st.get('consts')), drv=d['name'], drvconf=d['conf'], fmode=fmode,
                      wall=time.time() - t0, key=key, label=label or '')
        json.dump(merged, open(resf, 'w'))
        return merged
