"""Property-specific procedures beyond the shared trace jobs: fact tables (C19 layout, C18 noexcept table,
C13 conversions / minimal requirements) validated by spec/Facts.tla, long append runs (C14), ...
Each returns a result dict in the same format as jobs.run_job."""
import concurrent.futures as cf
import hashlib
import itertools
import json
import os
import shutil
import subprocess
import time

import pipeline as P
import tlaparse

INC = os.path.join(P.REPO, 'source', 'include')


def h12(s):
    return hashlib.sha256(s.encode()).hexdigest()[:12]


def compile_prog(src, flags, std='c++17', cxx='g++', opt='-O0', syntax_only=False):
    """Compile a facts program (cached by header + source + flags).  Returns (exe or None, log)."""
    key = P.sha('facts', P.header_sha(), P.file_sha(src) if os.path.exists(src) else src, json.dumps(flags), std, cxx, opt, syntax_only)
    d = os.path.join(P.CACHE, 'facts', key)
    exe = os.path.join(d, 'prog')
    logf = os.path.join(d, 'log')
    with P.Lock(d):
        if os.path.exists(logf):
            return (exe if os.path.exists(exe) else None), open(logf).read()
        os.makedirs(d, exist_ok=True)
        cmd = [cxx, '-std=' + std, opt, '-w', '-I', INC] + flags
        cmd += ['-fsyntax-only', src] if syntax_only else ['-o', exe + '.tmp', src]
        p = subprocess.run(cmd, stdout=subprocess.PIPE, stderr=subprocess.STDOUT)
        log = p.stdout.decode('utf-8', 'replace')
        if p.returncode == 0 and not syntax_only:
            os.rename(exe + '.tmp', exe)
        open(logf, 'w').write(('OK\n' if p.returncode == 0 else 'FAIL\n') + log[-6000:])
        return (exe if os.path.exists(exe) else None), open(logf).read()


def validate_facts(lines, tag, prop_filter=None):
    """Validate fact lines with spec/Facts.tla.  Returns result dict pieces."""
    wd = os.path.join(P.CACHE, 'factrun', P.sha(tag, time.time(), os.getpid()))
    os.makedirs(wd, exist_ok=True)
    tf = os.path.join(wd, 'facts.ndjson')
    with open(tf, 'w') as f:
        for ln in lines:
            f.write(ln.rstrip('\n') + '\n')
    md = os.path.join(wd, 'md')
    rc, out = P.java_tlc(['-workers', '1', '-metadir', md, '-config', os.path.join(P.SPEC, 'Trace.cfg'),
                          os.path.join(P.SPEC, 'Facts.tla')], env={'TRACE': tf}, timeout=3600, xmx='4g')
    viol, hits, end = [], {}, None
    for v in tlaparse.values(out):
        if not v:
            continue
        if v[0] == 'V':
            viol.append((v[1], v[2], v[3]))
        elif v[0] == 'H':
            hits[v[1]] = v[2]
        elif v[0] == 'END':
            end = v[1]
    if 'Model checking completed. No error has been found.' not in out or end != len(lines):
        open(os.path.join(wd, 'tlc.out'), 'w').write(out)
        raise RuntimeError('TLC fact validation failed (%s): see %s\n%s' % (tag, wd, out[-2500:]))
    shutil.rmtree(wd, ignore_errors=True)
    return viol, hits


def fact_sig(f):
    t = f.get('t')
    if t == 'layout':
        return 'layout|S%s|Al%s|K%s|b%s' % (f['S'], f['Al'], f['K'], f['bits'])
    if t == 'noexcept':
        return 'noexcept|%s|N%s|I%s|%s%s%s|%s%s%s%s|%s|%s' % (f['op'], f['N'], f['I'], f['nmc'], f['nma'], f['nsw'], f['isStd'], f['pocma'],
                                                           f['pocs'], f['ae'], f['allocDefNoex'], f['cpp'])
    if t == 'itertraits':
        return 'iter|N%s|%s' % (f['N'], f['cpp'])
    if t in ('conv', 'convptr'):
        return '%s|%s|N%s|%s->%s|%s' % (t, f['op'], f['N'], f['src'], f['dst'], f['cpp'])
    if t == 'req':
        return 'req|%s|%s|%s' % (f['op'], f['arch'], f.get('std'))
    if t == 'compile':
        return 'compile|%s|%s' % (f['what'], f.get('cfg'))
    if t == 'gdbview':
        def sh(x):
            return '%s/%s/%s' % (x.get('sz'), x.get('cap'), x.get('inl')) if x.get('p') else '-'
        return 'gdb|%s|%s|%s|%s' % (f['cfg'], f['op'], sh(f['pA']), sh(f['pB']))
    return json.dumps(f, sort_keys=True)[:80]


def facts_result(lines, meta, label, kind, prop_filter=None):
    """meta[i]: how to regenerate line i (for replay)."""
    viol, hits = validate_facts(lines, label)
    sigs, nlines = {}, {}
    facts = [json.loads(x) for x in lines]
    for i, ps in hits.items():
        for p in ps:
            sigs.setdefault(p, set()).add(h12(fact_sig(facts[i - 1])))
            nlines[p] = nlines.get(p, 0) + 1
    violations = []
    for (i, p, n) in viol:
        f = facts[i - 1]
        violations.append(dict(property=p, check=n, op=f.get('op', f.get('t')), cfg=fact_sig(f), k=None, fk=None, pre=None, kind='facts',
                               extra=dict(gen=meta[i - 1], fact=f, fact_sig=fact_sig(f), factkind=kind), out=None, a=None))
    return dict(lines=len(lines), ops=len(lines), restarts=0, skipped=0, sample=[x[:1200] for x in lines[:2]],
                sigs={p: sorted(s) for p, s in sigs.items()}, nlines=nlines, violations=violations, stims=len(lines),
                stims_total=len(lines), mc=None, drv=label, drvconf=None, fmode=0, label=label)


def _run_many(fn, items, workers=None):
    with cf.ThreadPoolExecutor(max_workers=workers or max(2, P.NCPU - 2)) as ex:
        return list(ex.map(fn, items))


# ------------------------------------------------------------------------------------------------ C19
LAYOUT_K = [0, 1, 4, 8, 12, 16, 20, 24]
LAYOUT_BITS = [64, 32, 16, 8]


def layout_gen(cfg):
    K, bits, std, cxx = cfg
    exe, log = compile_prog(os.path.join(P.HARNESS, 'facts_layout.cpp'), ['-DLK=%d' % K, '-DLBITS=%d' % bits], std, cxx)
    if not exe:
        raise RuntimeError('facts_layout does not compile (%s): %s' % (cfg, log[-1500:]))
    out = subprocess.run([exe], stdout=subprocess.PIPE).stdout.decode()
    return [(ln, dict(kind='layout', cfg=list(cfg))) for ln in out.splitlines() if ln.startswith('{')]


def c19(tier, seed):
    grid = [(K, b) for K in LAYOUT_K for b in LAYOUT_BITS]
    if tier == 'quick':
        rot = seed % len(grid)
        pick = [(0, 64), (0, 16), (8, 32)] + [grid[(rot + 7 * i) % len(grid)] for i in range(3)]
        cfgs = sorted({(K, b, 'c++17', 'g++') for K, b in pick})
    else:
        cfgs = [(K, b, 'c++17', 'g++') for K, b in grid] + [(0, 64, 'c++11', 'clang++'), (8, 16, 'c++20', 'clang++'), (0, 64, 'c++23', 'g++')]
    rows = [r for rs in _run_many(layout_gen, cfgs) for r in rs]
    res = facts_result([r[0] for r in rows], [r[1] for r in rows], 'layout facts: %d configurations (state bytes, size_type bits, std, compiler)' % len(cfgs), 'layout')
    res['coverage_extra'] = dict(explanation='sizeof/alignof/default inline capacity/inline buffer offset of %d real class layouts '
                                 '(Blob<S,Al> for S in 1..72, Al | S; allocator state bytes x size_type width: %s) validated against the '
                                 'C19 predicate in spec/Facts.tla; exhaustive over the element grid for the listed allocator configurations'
                                 % (len(rows), sorted({(c[0], c[1]) for c in cfgs})),
                                 exhaustive=(tier != 'quick'))
    return res


# ------------------------------------------------------------------------------------------------ C18 table
def noexcept_gen(cfg):
    (nmc, nma, nsw, akind, pocma, pocs, ae, defnoex, std, cxx) = cfg
    flags = ['-DE_NMC=%d' % nmc, '-DE_NMA=%d' % nma, '-DE_NSW=%d' % nsw, '-DA_KIND=%d' % akind, '-DA_POCMA=%d' % pocma,
             '-DA_POCS=%d' % pocs, '-DA_AE=%d' % ae, '-DA_DEFNOEX=%d' % defnoex]
    exe, log = compile_prog(os.path.join(P.HARNESS, 'facts_noexcept.cpp'), flags, std, cxx)
    if not exe:
        raise RuntimeError('facts_noexcept does not compile (%s): %s' % (cfg, log[-1500:]))
    out = subprocess.run([exe], stdout=subprocess.PIPE).stdout.decode()
    return [(ln, dict(kind='noexcept', cfg=list(cfg))) for ln in out.splitlines() if ln.startswith('{')]


def c18_table(tier, seed):
    elems = list(itertools.product((1, 0), repeat=3))
    allocs = [(0, 0, 0, 0, 1)] + [(1, a, b, c, d) for a, b, c in itertools.product((0, 1), repeat=3) for d in (1, 0)]
    if tier == 'quick':
        stds = [('c++17', 'g++'), ('c++11', 'g++'), ('c++20', 'clang++')]
        cfgs = [e + a + stds[0] for e in elems for a in allocs if a[4] == 1 or a[1:4] == (0, 0, 0)]
        rot = seed % 8
        cfgs += [elems[(rot + i) % 8] + allocs[(rot * 3 + 5 * i) % len(allocs)] + s for i in range(6) for s in stds[1:]]
    else:
        stds = [('c++11', 'g++'), ('c++14', 'g++'), ('c++17', 'g++'), ('c++20', 'g++'), ('c++23', 'g++'), ('c++14', 'clang++'),
                ('c++17', 'clang++'), ('c++20', 'clang++')]
        cfgs = [e + a + s for e in elems for a in allocs for s in stds]
    cfgs = sorted(set(cfgs))
    rows = [r for rs in _run_many(noexcept_gen, cfgs) for r in rs]
    res = facts_result([r[0] for r in rows], [r[1] for r in rows],
                       'noexcept table: %d (element traits x allocator traits x standard) instantiations' % len(cfgs), 'noexcept')
    return res


# ------------------------------------------------------------------------------------------------ C13 conversions
def conv_gen(cfg):
    part, std, cxx = cfg
    src = os.path.join(P.HARNESS, 'facts_conv.cpp')
    rows = []
    exe, log = compile_prog(src, ['-DPART=%d' % part, '-DCONV_SVIT_DIFF=1'], std, cxx)
    what = 'range of iterators of a small_vector<Src> accepted by small_vector<Dst> (construct from a convertible value type)'
    rows.append((json.dumps(dict(t='compile', prop='C13', what=what, cfg='part%d-%s-%s' % (part, std, cxx), compiles=bool(exe))),
                 dict(kind='conv', cfg=list(cfg))))
    if not exe:
        exe, log2 = compile_prog(src, ['-DPART=%d' % part, '-DCONV_SVIT_DIFF=0'], std, cxx)
        what2 = 'ranges (pointers, forward iterators, move iterators) of a convertible value type accepted by construct / assign / insert / append'
        rows.append((json.dumps(dict(t='compile', prop='C13', what=what2, cfg='part%d-%s-%s' % (part, std, cxx), compiles=bool(exe),
                                     log=(log2 if not exe else '')[-600:])), dict(kind='conv', cfg=list(cfg))))
        if not exe:
            return rows
    out = subprocess.run([exe], stdout=subprocess.PIPE).stdout.decode()
    rows += [(ln, dict(kind='conv', cfg=list(cfg))) for ln in out.splitlines() if ln.startswith('{')]
    return rows


# ------------------------------------------------------------------------------------------------ C13 archetypes
ARCH = {
    # name: (class body, provided named requirements)
    'Regular': ('''int v; A () : v (0) { } A (const A &o) : v (o.v) { } A (A &&o) noexcept : v (o.v) { }
                   A &operator= (const A &o) { v = o.v; return *this; } A &operator= (A &&o) noexcept { v = o.v; return *this; } ~A () { }''',
                ['DefaultInsertable', 'CopyInsertable', 'MoveInsertable', 'CopyAssignable', 'MoveAssignable', 'Erasable', 'EmplaceConstructible']),
    'RegularTriv': ('int v;',
                    ['DefaultInsertable', 'CopyInsertable', 'MoveInsertable', 'CopyAssignable', 'MoveAssignable', 'Erasable', 'EmplaceConstructible']),
    'NoAssign': ('''int v; A () : v (0) { } A (const A &o) : v (o.v) { } ~A () { }
                    A &operator= (const A &) = delete;''',
                 ['DefaultInsertable', 'CopyInsertable', 'MoveInsertable', 'Erasable', 'EmplaceConstructible']),
    'NoAssignTriv': ('''int v; A () = default; A (const A &) = default; A &operator= (const A &) = delete;''',
                     ['DefaultInsertable', 'CopyInsertable', 'MoveInsertable', 'Erasable', 'EmplaceConstructible']),
    'MoveOnlyNoAssign': ('''int v; A () : v (0) { } A (A &&o) noexcept : v (o.v) { } A (const A &) = delete; ~A () { }
                            A &operator= (A &&) = delete; A &operator= (const A &) = delete;''',
                         ['DefaultInsertable', 'MoveInsertable', 'Erasable', 'EmplaceConstructible']),
    'MoveOnlyNoAssignTriv': ('''int v; A () = default; A (A &&) = default; A (const A &) = delete;
                                A &operator= (A &&) = delete; A &operator= (const A &) = delete;''',
                             ['DefaultInsertable', 'MoveInsertable', 'Erasable', 'EmplaceConstructible']),
    'NoDefault': ('''int v; explicit A (int x) : v (x) { } A (const A &o) : v (o.v) { } A &operator= (const A &o) { v = o.v; return *this; } ~A () { }''',
                  ['CopyInsertable', 'MoveInsertable', 'CopyAssignable', 'MoveAssignable', 'Erasable', 'EmplaceConstructible']),
    'NoDefaultTriv': ('''int v; explicit A (int x) : v (x) { } A (const A &) = default; A &operator= (const A &) = default;''',
                      ['CopyInsertable', 'MoveInsertable', 'CopyAssignable', 'MoveAssignable', 'Erasable', 'EmplaceConstructible']),
}
TWIN = {'Regular': 'RegularTriv', 'NoAssign': 'NoAssignTriv', 'MoveOnlyNoAssign': 'MoveOnlyNoAssignTriv', 'NoDefault': 'NoDefaultTriv'}
TWIN.update({v: k for k, v in list(TWIN.items())})

# operation: (statement using `V v;` / values, documented requirements (README "brief"))
REQ_OPS = {
    'ctor_count':        ('V v (3);', ['DefaultInsertable']),
    'ctor_count_value':  ('V v (3, mk ());', ['CopyInsertable']),
    'ctor_copy':         ('V a; V v (a);', ['CopyInsertable']),
    'ctor_move':         ('V a; V v (std::move (a));', ['MoveInsertable']),
    'ctor_range_ptr':    ('const A *p = nullptr; V v (p, p);', ['EmplaceConstructible', 'CopyInsertable']),
    'resize_count':      ('V v; v.resize (3);', ['MoveInsertable', 'DefaultInsertable']),
    'resize_count_value': ('V v; v.resize (3, mk ());', ['CopyInsertable']),
    'push_back_copy':    ('V v; const A a = mk (); v.push_back (a);', ['CopyInsertable']),
    'push_back_move':    ('V v; v.push_back (mk ());', ['MoveInsertable']),
    'emplace_back_move': ('V v; v.emplace_back (mk ());', ['EmplaceConstructible', 'MoveInsertable']),
    'reserve':           ('V v; v.reserve (10);', ['MoveInsertable']),
    'shrink_to_fit':     ('V v; v.shrink_to_fit ();', ['MoveInsertable']),
    'pop_back_clear':    ('V v; v.clear (); if (! v.empty ()) v.pop_back ();', ['Erasable']),
    'append_range':      ('V v; const A *p = nullptr; v.append (p, p);', ['EmplaceConstructible', 'CopyInsertable', 'MoveInsertable']),
    'append_move_range': ('V v; A *p = nullptr; v.append (std::make_move_iterator (p), std::make_move_iterator (p));', ['EmplaceConstructible', 'MoveInsertable']),
    'insert_value':      ('V v; const A a = mk (); v.insert (v.begin (), a);', ['CopyInsertable', 'CopyAssignable', 'MoveInsertable', 'MoveAssignable']),
    'erase':             ('V v; if (! v.empty ()) v.erase (v.begin ());', ['MoveAssignable', 'Erasable']),
    'assign_count':      ('V v; v.assign (2, mk ());', ['CopyInsertable', 'CopyAssignable']),
    'swap':              ('V a, v; v.swap (a);', ['MoveInsertable', 'MoveAssignable', 'Swappable']),
}


def req_source(op, arch, N):
    body, prov = ARCH[arch]
    stmt, needs = REQ_OPS[op]
    mk = 'A (1)' if arch.startswith('NoDefault') else 'A ()'
    return ('#include <gch/small_vector.hpp>\n#include <iterator>\n#include <utility>\nstruct A { %s };\n'
            'static A mk () { return %s; }\ntypedef gch::small_vector<A, %d> V;\nvoid f () { %s }\nint main () { f (); return 0; }\n'
            % (body, mk, N, stmt))


def req_gen(cfg):
    op, arch, N, std, cxx = cfg
    src = req_source(op, arch, N)
    d = os.path.join(P.CACHE, 'reqsrc')
    os.makedirs(d, exist_ok=True)
    path = os.path.join(d, 'req_%s.cpp' % P.sha(src))
    if not os.path.exists(path):
        import threading
        tmp = '%s.tmp%d_%d' % (path, os.getpid(), threading.get_ident())
        open(tmp, 'w').write(src)
        os.replace(tmp, path)
    flags = ['-DGCH_DISABLE_CONCEPTS'] if False else []
    exe, log = compile_prog(path, flags, std, cxx, syntax_only=True)
    ok = log.startswith('OK')
    return dict(op=op, arch=arch, N=N, std=std, cxx=cxx, compiles=ok, log=log[-800:])


def c13_facts(tier, seed):
    if tier == 'quick':
        ccfgs = [(p, 'c++17', 'g++') for p in range(5)] + [(4, 'c++20', 'g++')]
        stds = [('c++17', 'g++'), ('c++20', 'g++')]
        Ns = [2]
    else:
        ccfgs = [(p, s, c) for p in range(5) for (s, c) in (('c++11', 'g++'), ('c++17', 'g++'), ('c++20', 'g++'), ('c++20', 'clang++'))]
        stds = [('c++11', 'g++'), ('c++17', 'g++'), ('c++20', 'g++'), ('c++17', 'clang++'), ('c++20', 'clang++')]
        Ns = [0, 2]
    rcfgs = [(op, arch, N, s, c) for op in REQ_OPS for arch in ARCH for N in Ns for (s, c) in stds]
    with cf.ThreadPoolExecutor(max_workers=max(2, P.NCPU - 2)) as ex:
        conv_f = [ex.submit(conv_gen, c) for c in ccfgs]
        req_f = [ex.submit(req_gen, c) for c in rcfgs]
        conv_rows = [r for f in conv_f for r in f.result()]
        reqs = [f.result() for f in req_f]
    by = {(r['op'], r['arch'], r['N'], r['std'], r['cxx']): r for r in reqs}
    rows = list(conv_rows)
    for r in reqs:
        tw = by.get((r['op'], TWIN[r['arch']], r['N'], r['std'], r['cxx']))
        f = dict(t='req', op=r['op'], arch=r['arch'], N=r['N'], std=r['std'] + '-' + r['cxx'], needs=REQ_OPS[r['op']][1],
                 provides=ARCH[r['arch']][1], compiles=r['compiles'], twinKnown=tw is not None and r['arch'].endswith('Triv'),
                 twinCompiles=bool(tw and tw['compiles']))
        rows.append((json.dumps(f), dict(kind='req', cfg=[r['op'], r['arch'], r['N'], r['std'], r['cxx']])))
    res = facts_result([r[0] for r in rows], [r[1] for r in rows],
                       'conversion facts (%d type-pair x operation x iterator-kind records) + minimal-requirement compile grid (%d)' %
                       (len(conv_rows), len(reqs)), 'c13')
    return res


# ------------------------------------------------------------------------------------------------ C17
def _equiv(ref_trace, oth_trace, wd, tag):
    md = os.path.join(wd, 'md_' + tag)
    rc, out = P.java_tlc(['-workers', '1', '-metadir', md, '-config', os.path.join(P.SPEC, 'Trace.cfg'),
                          os.path.join(P.SPEC, 'Equiv.tla')], env={'TRACE': ref_trace, 'TRACE2': oth_trace}, timeout=3600, xmx='6g')
    shutil.rmtree(md, ignore_errors=True)
    viol, hits, notes, end = [], 0, 0, None
    for v in tlaparse.values(out):
        if not v:
            continue
        if v[0] == 'V':
            viol.append((v[1], v[2], v[3]))
        elif v[0] == 'H':
            hits += 1
        elif v[0] == 'N':
            notes += 1
        elif v[0] == 'END':
            end = v[1]
    if 'Model checking completed. No error has been found.' not in out or end is None:
        open(os.path.join(wd, 'tlc_%s.out' % tag), 'w').write(out)
        raise RuntimeError('TLC equivalence check failed (%s): see %s\n%s' % (tag, wd, out[-2500:]))
    return viol, hits, notes


def c17(tier, seed):
    import jobs as Jb
    import suites
    import random
    rnd = random.Random(seed * 31 + 5)
    if tier == 'quick':
        builds = [('g++', 'c++17', []), ('g++', 'c++11', []), ('g++', 'c++20', []), ('g++', 'c++23', []), ('clang++', 'c++14', []),
                  ('g++', 'c++20', ['GCH_DISABLE_CONCEPTS']), ('clang++', 'c++20', [])]
        corpora = [('one N=2 nothrow-move', suites.one(2), suites.drv(2, elem=suites.NT), 500, 1),
                   ('two N=2,2 POCMA+POCS unequal', suites.two(2, 2, **suites.traits_mc(0, 1, 1, 0)), suites.drv(2, 2, elem=suites.TM, POCMA=1, POCS=1), 400, 0),
                   ('order len<=3 N=1,3', suites.order(3), suites.drv(1, 3, elem=suites.TRIV), 400, 0),
                   ('one N=2 trivially copyable, construct-only allocator', suites.one(2), suites.drv(2, elem=suites.TRIV, CONSTRUCT=2), 400, 0),
                   ('two N=2,2 element with a throwing ADL swap', suites.two(2, 2, **suites.traits_mc(0, 0, 0, 0)), suites.drv(2, 2, elem=suites.SW), 300, 1)]
    else:
        builds = [('g++', 'c++17', [])] + [('g++', s, []) for s in ('c++11', 'c++14', 'c++20', 'c++23')] + \
                 [('clang++', s, []) for s in ('c++11', 'c++14', 'c++17', 'c++20', 'c++2b')] + \
                 [('clang++-16', 'c++20', []), ('clang++-16', 'c++2b', []), ('g++', 'c++20', ['GCH_DISABLE_CONCEPTS']),
                  ('clang++', 'c++20', ['GCH_DISABLE_CONCEPTS']), ('g++', 'c++23', ['GCH_DISABLE_CONCEPTS'])]
        corpora = [('one N=2 nothrow-move', suites.one(2), suites.drv(2, elem=suites.NT), 3000, 1),
                   ('one N=0 throwing-move', suites.one(0, nothrow=False), suites.drv(0, elem=suites.TM), 2000, 1),
                   ('one N=3 trivially copyable', suites.one(3), suites.drv(3, elem=suites.TRIV), 3000, 0),
                   ('two N=2,2 POCMA+POCS unequal', suites.two(2, 2, **suites.traits_mc(0, 1, 1, 0)), suites.drv(2, 2, elem=suites.TM, POCMA=1, POCS=1), 3000, 1),
                   ('two N=3,2 always-equal', suites.two(3, 2, **suites.traits_mc(0, 0, 0, 1)), suites.drv(3, 2, elem=suites.NT, AE=1), 3000, 0),
                   ('two N=2,2 std::allocator', suites.two(2, 2, IsStd=True, allocids=(0,)), suites.drv(2, 2, elem=suites.NT, ALLOC=0), 2000, 0),
                   ('order len<=3 N=1,3', suites.order(3), suites.drv(1, 3, elem=suites.TRIV), None, 0),
                   ('max_size()=5 N=2', suites.mx(2, 5), suites.drv(2, elem=suites.NT, MAXSZ=5), 2000, 0),
                   ('one N=2 trivially copyable, construct-only allocator', suites.one(2), suites.drv(2, elem=suites.TRIV, CONSTRUCT=2), 2000, 0),
                   ('one N=0 int, construct-only allocator', suites.one(0), suites.drv(0, elem=suites.INT, CONSTRUCT=2), 2000, 0),
                   ('one N=2 nothrow-move, destroy-only allocator', suites.one(2), suites.drv(2, elem=suites.NT, CONSTRUCT=3), 2000, 1),
                   ('two N=2,2 element with a throwing ADL swap', suites.two(2, 2, **suites.traits_mc(0, 0, 0, 0)), suites.drv(2, 2, elem=suites.SW), 3000, 1),
                   ('two N=2,2 element with a throwing ADL swap, POCS', suites.two(2, 2, **suites.traits_mc(0, 0, 1, 0)), suites.drv(2, 2, elem=suites.SW, POCS=1), 2000, 1)]
    wd = os.path.join(P.CACHE, 'c17', P.sha('c17', tier, seed, P.header_sha(), P.spec_sha(), P.file_sha(os.path.join(P.HARNESS, 'driver.cpp'))))
    resf = os.path.join(wd, 'result.json')
    with P.Lock(wd):
        if os.path.exists(resf):
            return json.load(open(resf))
        os.makedirs(wd, exist_ok=True)
        tasks = []
        stim_text = {}
        for ci, (cname, mc, dr, n, fmode) in enumerate(corpora):
            st = P.gen_stimuli(mc)
            lines = open(st['path']).readlines()
            if n is not None and len(lines) > n:
                lines = [lines[i] for i in sorted(rnd.sample(range(len(lines)), n))]
            sf = os.path.join(wd, 'stim%d.txt' % ci)
            open(sf, 'w').writelines(lines)
            for ln_ in lines:
                stim_text[(ci, ln_.split(' ', 3)[1])] = ln_.strip()
            for bi, (cxx, std, defs) in enumerate(builds):
                d = dict(dr)
                d.update(cxx=cxx, std=std, defs=defs)
                tasks.append((ci, bi, cname, sf, d, fmode, len(lines)))

        def run(t):
            ci, bi, cname, sf, d, fmode, n = t
            b = P.build_driver(d)
            tf = os.path.join(wd, 'trace_%d_%d.ndjson' % (ci, bi))
            Jb.run_driver(b['exe'], sf, tf, fmode)
            viol, hits, end = P.validate_trace(tf, wd, 'v%d_%d' % (ci, bi))
            sigs, nlines, violations, ops = P.analyse(tf, viol, hits, b['name'])
            return (ci, bi, tf, b['name'], violations, ops)
        outs = _run_many(run, tasks)
        traces = {(ci, bi): (tf, name) for ci, bi, tf, name, _, _ in outs}
        l1_viol = [v for o in outs for v in o[4]]
        pairs = [(ci, bi) for (ci, bi) in traces if bi != 0]

        def cmp(p):
            ci, bi = p
            return (ci, bi) + _equiv(traces[(ci, 0)][0], traces[(ci, bi)][0], wd, 'e%d_%d' % (ci, bi))
        eq = _run_many(cmp, pairs)
        violations, sigs, programs, compared, notes = [], set(), 0, 0, 0
        for (ci, bi, viol, hits, nts) in eq:
            programs += corpora[ci][3] or 0
            compared += hits
            notes += nts
            sigs.add(h12('%s|%s' % (corpora[ci][0], traces[(ci, bi)][1])))
            ref_lines = open(traces[(ci, 0)][0]).read().split('\n')
            oth_lines = open(traces[(ci, bi)][0]).read().split('\n')
            for (ln, p, n) in viol[:50]:
                a = json.loads(ref_lines[ln - 1]) if ln - 1 < len(ref_lines) and ref_lines[ln - 1] else {}
                violations.append(dict(property='C17', check=n, op=a.get('op'), cfg='%s vs %s' % (traces[(ci, 0)][1], traces[(ci, bi)][1]),
                                       k=a.get('k'), fk=a.get('fk'), pre=None, kind='equiv', out=a.get('out'), a=a.get('a'),
                                       extra=dict(ref=ref_lines[ln - 1][:1500], other=oth_lines[ln - 1][:1500] if ln - 1 < len(oth_lines) else None,
                                                  corpus=corpora[ci][0], id=a.get('id'), stimulus=stim_text.get((ci, a.get('id'))),
                                                  fmode=corpora[ci][4], drv=corpora[ci][2], ref_build=list(builds[0]), other_build=list(builds[bi]))))
        # L1 violations inside any build's trace are C17-relevant only through their own properties; report count
        nprog = sum(t[6] for t in tasks)
        res = dict(lines=compared, ops=compared, restarts=0, skipped=0,
                   sample=[open(traces[(0, 1)][0]).readlines()[5][:1000]] if (0, 1) in traces else [],
                   sigs={'C17': sorted(sigs)}, nlines={'C17': compared}, violations=violations, stims=nprog, stims_total=nprog, mc=None,
                   drv='c17', drvconf=None, fmode=0,
                   label='equivalence: %d corpora x %d builds (reference %s), %d call results compared; %d faulted calls not comparable (different fallible-event count)'
                         % (len(corpora), len(builds), builds[0][1], compared, notes),
                   coverage_extra=dict(programs=nprog, disagreements_checked=compared,
                                       builds=['%s -std=%s %s' % (c, s, ' '.join(d)) for c, s, d in builds],
                                       l1_violations_in_any_build=len(l1_viol)))
        json.dump(res, open(resf, 'w'))
        return res


# ------------------------------------------------------------------------------------------------ C08
CX_CODES = ("ctor_def ctor_n ctor_nv ctor_rng ctor_il ctor_copy ctor_move dtor push_back push_back_m emplace_back_c emplace_back_v insert "
            "insert_m emplace_c emplace_v insert_n insert_rng insert_il append_rng append_il assign_n assign_rng assign_il opeq_il erase "
            "erase_rng pop_back clear resize resize_v reserve shrink at assign_copy assign_copy_f assign_move assign_move_f swap append_copy "
            "append_move cmp ctor_gen").split()
CX_RESULT_CHECKS = {'C01', 'C11', 'C16'}     # what a cx trace can be checked for against L1 (the rest needs run-time-only observations)


def cx_program(line):
    body = line.split('|', 1)[1].strip()
    ops = []
    for o in body.split(' ; '):
        t = o.split()
        name, d, sname = t[0], t[1], t[2]
        a = [int(x) for x in t[3:]]
        if name not in CX_CODES or any(abs(x) > 100 for x in a):
            return None
        if name == 'at' and False:
            return None
        ops.append('{C_%s,%d,%d,%d,{%s}}' % (name, 0 if d == 'A' else 1, -1 if sname == '-' else (0 if sname == 'A' else 1), len(a),
                                            ','.join(str(x) for x in (a + [0, 0, 0, 0])[:4])))
    if not ops or len(ops) > 10:
        return None
    return ops


def cx_include(progs):
    out, tab = [], []
    for k, (line, ops) in enumerate(progs):
        out.append('constexpr Op P_%d[] = {%s};\nconstexpr Digest D_%d = run (P_%d, %d);' % (k, ','.join(ops), k, k, len(ops)))
        tab.append('{P_%d,%d,&D_%d}' % (k, len(ops), k))
    out.append('struct Entry { const Op *prog; int n; const Digest *ct; };\nstatic const Entry TAB[] = {%s};\nenum { NPROG = %d };'
               % (',\n'.join(tab) if tab else '{0,0,0}', len(tab)))
    return '\n'.join(out) + '\n'


def cx_run(task):
    (label, lines, NA, NB, elem, cxx, std, wd) = task
    import re
    progs = [(ln, cx_program(ln)) for ln in lines]
    progs = [(ln, o) for ln, o in progs if o]
    rejected = []      # programs the compiler refuses as constant expressions
    d = os.path.join(wd, P.sha(label, NA, NB, elem, cxx, std))
    os.makedirs(d, exist_ok=True)
    exe = os.path.join(d, 'cx')
    for attempt in range(6):
        open(os.path.join(d, 'cx_progs.inc'), 'w').write(cx_include(progs))
        cmd = [cxx, '-std=' + std, '-O0', '-w', '-DNDEBUG', '-I', INC, '-I', d, '-DCX_NA=%d' % NA, '-DCX_NB=%d' % NB, '-DCX_ELEM=%d' % elem]
        cmd += ['-fconstexpr-ops-limit=2000000000', '-fconstexpr-loop-limit=10000000'] if cxx.startswith('g++') else ['-fconstexpr-steps=2000000000']
        p = subprocess.run(cmd + ['-o', exe, os.path.join(P.HARNESS, 'cx.cpp')], stdout=subprocess.PIPE, stderr=subprocess.STDOUT)
        if p.returncode == 0:
            break
        log = p.stdout.decode('utf-8', 'replace')
        bad = sorted({int(x) for x in re.findall(r"\bD_(\d+)\b", log)})
        if not bad:
            raise RuntimeError('cx.cpp does not compile (%s): %s' % (label, log[-2500:]))
        for k in bad:
            m = re.search(r"[^\n]*\bD_%d\b[^\n]*\n(?:[^\n]*\n){0,6}" % k, log)
            rejected.append((progs[k][0].strip(), (m.group(0) if m else log[:800])[:1200]))
        progs = [pr for k, pr in enumerate(progs) if k not in set(bad)]
    else:
        raise RuntimeError('cx.cpp: too many rejected programs (%s)' % label)
    ct = os.path.join(d, 'ct.ndjson')
    rt = os.path.join(d, 'rt.ndjson')
    open(ct, 'wb').write(subprocess.run([exe, 'c'], stdout=subprocess.PIPE).stdout)
    open(rt, 'wb').write(subprocess.run([exe, 'r'], stdout=subprocess.PIPE).stdout)
    # (1) ct == rt under the mask of unspecified results
    md = os.path.join(d, 'md')
    rc, out = P.java_tlc(['-workers', '1', '-metadir', md, '-config', os.path.join(P.SPEC, 'Trace.cfg'), os.path.join(P.SPEC, 'CxEquiv.tla')],
                         env={'TRACE': ct, 'TRACE2': rt}, timeout=3600, xmx='4g')
    shutil.rmtree(md, ignore_errors=True)
    if 'Model checking completed. No error has been found.' not in out or '"END"' not in out:
        raise RuntimeError('TLC CxEquiv failed (%s): %s' % (label, out[-2000:]))
    eqv = [v for v in tlaparse.values(out) if v and v[0] == 'V']
    compared = sum(1 for v in tlaparse.values(out) if v and v[0] == 'H')
    # (2) both digests against the L1 result checks
    l1 = []
    for tag, tf in (('consteval', ct), ('runtime', rt)):
        viol, hits, end = P.validate_trace(tf, d, tag)
        sigs, nlines, violations, ops = P.analyse(tf, viol, hits, 'cx-%s-%s' % (tag, label))
        l1 += [v for v in violations if v['property'] in CX_RESULT_CHECKS]
    ctl = open(ct).read().split('\n')
    rtl = open(rt).read().split('\n')
    vio = []
    for (_, ln, p, n) in eqv:
        a = json.loads(ctl[ln - 1])
        pid = int(a['id'][1:])
        vio.append(dict(property='C08', check=n, op=a.get('op'), cfg=label, k=None, fk=None, pre=None, kind='cx', out=None, a=a.get('a'),
                        extra=dict(program=progs[pid][0].strip(), consteval=ctl[ln - 1][:1200], runtime=rtl[ln - 1][:1200], task=[NA, NB, elem, cxx, std])))
    for v in l1:
        pid = int(v['id'][1:])
        vio.append(dict(property='C08', check='result differs from the std::vector oracle (%s): %s' % (v['cfg'].split('-')[1], v['check']), op=v['op'], cfg=label,
                        k=None, fk=None, pre=v['pre'], kind='cx', out=None, a=v['a'], extra=dict(program=progs[pid][0].strip(), task=[NA, NB, elem, cxx, std])))
    for (prog, msg) in rejected:
        vio.append(dict(property='C08', check='not a constant expression (compiler diagnostic)', op=prog.split(';')[-1].split()[0], cfg=label, k=None, fk=None,
                        pre=None, kind='cx', out=None, a=None, extra=dict(program=prog, diagnostic=msg, task=[NA, NB, elem, cxx, std])))
    sample = [dict(program=progs[0][0].strip(), consteval=ctl[3][:600])] if progs else []
    return dict(label=label, programs=len(progs) + len(rejected), compared=compared, violations=vio, sample=sample,
                sigs=[h12(label + pr[0]) for pr in progs])


def c08(tier, seed):
    import suites
    import random
    rnd = random.Random(seed * 101 + 3)
    if tier == 'quick':
        comps = [('g++', 'c++20'), ('clang++', 'c++20')]
        cfgs = [(2, 2, 0), (0, 2, 1), (3, 2, 1)]
        n_one, n_two = 350, 350
    else:
        comps = [('g++', 'c++20'), ('g++', 'c++23'), ('clang++', 'c++20'), ('clang++-16', 'c++20'), ('clang++-16', 'c++2b')]
        cfgs = [(2, 2, 0), (2, 2, 1), (0, 0, 1), (0, 2, 1), (3, 2, 1), (2, 3, 0), (0, 0, 0)]
        n_one, n_two = 3000, 3000
    wd = os.path.join(P.CACHE, 'c08', P.sha('c08', tier, seed, P.header_sha(), P.spec_sha(), P.file_sha(os.path.join(P.HARNESS, 'cx.cpp')),
                                             P.file_sha(os.path.join(P.ROOT, 'lib', 'extras.py'))))
    resf = os.path.join(wd, 'result.json')
    with P.Lock(wd):
        if os.path.exists(resf):
            return json.load(open(resf))
        os.makedirs(wd, exist_ok=True)
        tasks = []
        for (NA, NB, elem) in cfgs:
            lines = []
            st1 = P.gen_stimuli(suites.one(NA, IsStd=True))
            l1 = open(st1['path']).readlines()
            lines += rnd.sample(l1, min(n_one, len(l1)))
            st2 = P.gen_stimuli(suites.two(NA, NB, IsStd=True, allocids=(0,)))
            l2 = open(st2['path']).readlines()
            lines += rnd.sample(l2, min(n_two, len(l2)))
            for (cxx, std) in comps:
                for chunk in range(0, len(lines), 1500):
                    tasks.append(('N%d,%d-%s-%s-%s-%d' % (NA, NB, 'lit' if elem else 'int', cxx, std, chunk), lines[chunk:chunk + 1500], NA, NB, elem, cxx, std, wd))
        outs = _run_many(cx_run, tasks, workers=max(2, P.NCPU // 2))
        programs = sum(o['programs'] for o in outs)
        compared = sum(o['compared'] for o in outs)
        violations = [v for o in outs for v in o['violations']]
        sigs = sorted({s for o in outs for s in o['sigs']})
        res = dict(lines=compared, ops=compared, restarts=0, skipped=0, sample=[json.dumps(outs[0]['sample'][0])] if outs and outs[0]['sample'] else [],
                   sigs={'C08': sigs}, nlines={'C08': compared}, violations=violations, stims=programs, stims_total=programs, mc=None,
                   drv='cx', drvconf=None, fmode=0,
                   label='constant evaluation: %d programs (paths of the MC instances, N pairs %s, int and a non-trivial literal class) under %s; %d call results compared'
                         % (programs, sorted({(c[0], c[1]) for c in cfgs}), comps, compared),
                   coverage_extra=dict(programs=programs, disagreements_checked=compared))
        json.dump(res, open(resf, 'w'))
        return res


# ------------------------------------------------------------------------------------------------ C20
def gdb_run(task):
    (label, lines, drvconf, wd) = task
    d = dict(drvconf)
    d['GDB'] = 1
    b = P.build_driver(d)
    td = os.path.join(wd, P.sha(label))
    os.makedirs(td, exist_ok=True)
    sf = os.path.join(td, 'stim.txt')
    open(sf, 'w').writelines(lines)
    env = dict(os.environ)
    env.update(GDB_ARGS='%s 0 0 0' % sf, GDB_OUT=os.path.join(td, 'gdb.out'), GDB_TRACE=os.path.join(td, 'trace.ndjson'), REPO_ROOT=P.REPO)
    p = subprocess.run(['gdb', '-batch', '-nx', '-x', os.path.join(P.ROOT, 'lib', 'gdb_script.py'), b['exe']], stdout=subprocess.PIPE,
                       stderr=subprocess.STDOUT, env=env, timeout=3000)
    probe = {}
    for ln in open(env['GDB_TRACE']):
        if '"t":"op"' in ln:
            r = json.loads(ln)
            probe[(r['id'], r['i'])] = r
    rows = []
    ngdb = 0
    for ln in open(env['GDB_OUT']):
        g = json.loads(ln)
        if g.get('t') != 'gdb':
            raise RuntimeError('gdb script error (%s): %s\n%s' % (label, ln[:300], p.stdout.decode()[-1500:]))
        ngdb += 1
        r = probe.get((g['id'], g['i']))
        if r is None or 'post' not in r:
            continue
        f = dict(t='gdbview', id=g['id'], i=g['i'], op=r['op'], cfg=b['name'], pA=r['post']['A'], pB=r['post']['B'],
                 gA=g['A'] or dict(printer=False), gB=g['B'] or dict(printer=False), it=g['it'], cit=g['cit'], it_index=g['it_index'])
        rows.append((json.dumps(f), dict(kind='gdb', cfg=[label])))
    if ngdb == 0:
        raise RuntimeError('gdb produced no checkpoint (%s): %s' % (label, p.stdout.decode()[-1500:]))
    return rows


def c20(tier, seed):
    import suites
    import random
    rnd = random.Random(seed * 17 + 1)
    n = 120 if tier == 'quick' else 1500
    cfgs = [('N=2 class-type elements', suites.one(2), suites.drv(2, 0, elem=suites.NT)),
            ('N=0 int elements, std::allocator', suites.one(0, IsStd=True), suites.drv(0, 3, elem=suites.INT, ALLOC=0)),
            ('N=3,2 trivially copyable class, two containers', suites.two(3, 2, **suites.traits_mc(0, 1, 0, 0)), suites.drv(3, 2, elem=suites.TRIV, POCMA=1))]
    if tier != 'quick':
        cfgs += [('N=1 throwing-move class', suites.one(1, nothrow=False), suites.drv(1, 1, elem=suites.TM)),
                 ('N=2,2 two containers, class type', suites.two(2, 2, **suites.traits_mc(0, 0, 1, 0)), suites.drv(2, 2, elem=suites.NT, POCS=1)),
                 ('N=2 class type, clang++ debug info', suites.one(2), suites.drv(2, 0, elem=suites.NT, cxx='clang++'))]
    wd = os.path.join(P.CACHE, 'c20', P.sha('c20', tier, seed, P.header_sha(), P.spec_sha(), P.file_sha(os.path.join(P.HARNESS, 'driver.cpp')),
                                             P.file_sha(os.path.join(P.ROOT, 'lib', 'gdb_script.py'))))
    os.makedirs(wd, exist_ok=True)
    tasks = []
    for (label, mc, dr) in cfgs:
        st = P.gen_stimuli(mc)
        lines = open(st['path']).readlines()
        lines = [lines[i] for i in sorted(rnd.sample(range(len(lines)), min(n, len(lines))))]
        tasks.append((label, lines, dr, wd))
    rows = [r for rs in _run_many(gdb_run, tasks) for r in rs]
    res = facts_result([r[0] for r in rows], [r[1] for r in rows], 'gdb pretty-printer views at %d checkpoints (%s)' % (len(rows), [c[0] for c in cfgs]), 'gdb')
    shutil.rmtree(wd, ignore_errors=True)
    return res


# ------------------------------------------------------------------------------------------------ C01 oracle self-test
def oracle_selftest(tier, seed):
    """Replay the same TLC stimuli on std::vector (thin adaptor in the driver).  The C01 / C11 result checks must
    accept every call: this validates the TLA+ transcription of std::vector's semantics against libstdc++ instead of
    trusting it.  A rejection here is an error of the ORACLE (internal error), never a finding about small_vector."""
    import jobs as Jb
    import suites
    n = 2500 if tier == 'quick' else None
    rs = [Jb.run_job(suites.one(0), suites.drv(0, elem=suites.NT, VECTOR=1), 0, n, seed, None, False, None, 'oracle self-test: std::vector<Tracked>'),
          Jb.run_job(suites.one(0), suites.drv(0, elem=suites.INT, VECTOR=1, ALLOC=0), 0, n, seed, None, False, None, 'oracle self-test: std::vector<int>')]
    bad = []
    calls = 0
    for r in rs:
        calls += r['ops']
        for v in r['violations']:
            if v['property'] in ('C01', 'C11'):
                v = dict(v)
                v['check'] = 'ORACLE SELF-TEST on std::vector failed: ' + v['check']
                v['property'] = 'INTERNAL'
                bad.append(v)
    return dict(lines=0, ops=0, restarts=0, skipped=0, sample=[], sigs={}, nlines={}, violations=bad, stims=0, stims_total=0, mc=None, drv='std::vector',
                drvconf=None, fmode=0, label='oracle self-test: %d std::vector calls accepted by the C01 / C11 checks' % calls,
                coverage_extra=dict(oracle_selftest_std_vector_calls=calls))


def order_selftest(tier, seed):
    """The comparison oracle (total order for integers, partial order for floating point; pre-C++20 and <=>-rewritten
    operator sets) replayed on std::vector itself: libstdc++ must agree with the TLA+ transcription on every pair."""
    import jobs as Jb
    import suites
    ml = 3 if tier == 'quick' else 4
    rs = [Jb.run_job(suites.order(3, alphabet=(0, 2, 3), flt=True), suites.drv(0, 0, elem=suites.FLT, VECTOR=1, ALLOC=0), 0, None, seed, None, False, None, 'oracle self-test: std::vector<double> C++17'),
          Jb.run_job(suites.order(3, alphabet=(0, 2, 3), flt=True), suites.drv(0, 0, elem=suites.FLT, VECTOR=1, ALLOC=0, std='c++20'), 0, None, seed, None, False, None, 'oracle self-test: std::vector<double> C++20'),
          Jb.run_job(suites.order(ml), suites.drv(0, 0, elem=suites.NT, VECTOR=1, std='c++20'), 0, None, seed, None, False, None, 'oracle self-test: std::vector<Tracked> C++20'),
          Jb.run_job(suites.order(ml), suites.drv(0, 0, elem=suites.INT, VECTOR=1, ALLOC=0, std='c++23'), 0, None, seed, None, False, None, 'oracle self-test: std::vector<int> C++23')]
    bad = []
    calls = 0
    for r in rs:
        calls += r['ops']
        for v in r['violations']:
            if v['property'] == 'C16':
                v = dict(v)
                v['check'] = 'ORACLE SELF-TEST on std::vector failed: ' + v['check']
                v['property'] = 'INTERNAL'
                bad.append(v)
    return dict(lines=0, ops=0, restarts=0, skipped=0, sample=[], sigs={}, nlines={}, violations=bad, stims=0, stims_total=0, mc=None, drv='std::vector',
                drvconf=None, fmode=0, label='comparison-oracle self-test: %d std::vector calls accepted by the C16 checks' % calls,
                coverage_extra=dict(comparison_oracle_selftest_std_vector_calls=calls))


# ------------------------------------------------------------------------------------------------ L2 at design level
def mc_impl(tier, seed):
    """MC_Impl: TLC executes the implementation-shaped scripts of spec/SVecImpl.tla for every explored state, every
    modelled call and EVERY throw point, and asserts the whole L1 contract and the L0 machine on each predicted line."""
    import suites
    rot = seed % 16
    if tier == 'quick':
        insts = [dict(suites.one(2, nothrow=False, maxlen=4, maxcnt=2, kinds=(0, 1, 4)), Profile='impl'),
                 dict(suites.one(0, nothrow=True, maxlen=3, maxcnt=2, kinds=(3, 5, 7, 8)), Profile='impl')]
        insts += [dict(suites.two(2, 2, maxlen=2, maxcap=4, **suites.traits_mc(*suites.ALL_TRAITS[(rot + 7 * i) % 16])), Profile='impl2', NothrowMove=False)
                  for i in range(2)]
    else:
        insts = [dict(suites.one(N, nothrow=nt, copyable=cp, maxlen=5, maxcnt=3, kinds=((0, 1, 3, 4, 5, 7, 8) if cp else (5, 7, 8))), Profile='impl')
                 for N in (0, 2, 3) for (nt, cp) in ((True, True), (False, True), (False, False), (True, False))]
        insts += [dict(suites.one(2, nothrow=False, maxlen=4, maxcnt=2, kinds=(0, 1, 4)), Profile='impl', Pairs=True),
                  dict(suites.two(2, 2, maxlen=2, maxcap=4, **suites.traits_mc(0, 0, 0, 0)), Profile='impl2', NothrowMove=False, Pairs=True)]
        insts += [dict(suites.two(na, nb, maxlen=3, maxcap=8, **suites.traits_mc(*tr)), Profile='impl2', NothrowMove=nt)
                  for (na, nb) in ((2, 2), (0, 2), (3, 2), (2, 3), (0, 0)) for tr in suites.ALL_TRAITS for nt in (False,)]
    rs = _run_many(P.gen_stimuli, insts, workers=6)
    return dict(lines=0, ops=0, restarts=0, skipped=0, sample=[], sigs={}, nlines={}, violations=[], stims=0, stims_total=0,
                mc=None, drv='MC_Impl', drvconf=None, fmode=0,
                label='design level (MC_Impl): %d L2 instances, %d (state, call, throw point) transitions, all inside the L1 contract + L0 machine'
                      % (len(rs), sum(r['generated'] for r in rs)),
                coverage_extra=dict(design_level_L2_transitions=sum(r['generated'] for r in rs),
                                    design_level_L2_states=sum(r['distinct'] for r in rs)))


# ------------------------------------------------------------------------------------------------ C14
def c14_growth(tier, seed):
    """Design level: the derived theorem of C14 under the weakest admissible growth policy (spec/Growth.tla);
    thorough tier: longer append runs on the real code (millions of appends)."""
    import jobs as Jb
    maxn = 3000 if tier == 'quick' else 30000
    wd = os.path.join(P.CACHE, 'growth', P.sha('growth', maxn, P.file_sha(os.path.join(P.SPEC, 'Growth.tla'))))
    okf = os.path.join(wd, 'ok')
    with P.Lock(wd):
        if not os.path.exists(okf):
            os.makedirs(wd, exist_ok=True)
            cfg = os.path.join(wd, 'G.cfg')
            open(cfg, 'w').write('SPECIFICATION Spec\nCONSTANTS\n  MaxN = %d\n  Caps = {0, 1, 2, 3, 8, 13}\nCHECK_DEADLOCK FALSE\n' % maxn)
            rc, out = P.java_tlc(['-workers', '1', '-metadir', os.path.join(wd, 'md'), '-config', cfg, os.path.join(P.SPEC, 'Growth.tla')], timeout=3600, xmx='4g')
            shutil.rmtree(os.path.join(wd, 'md'), ignore_errors=True)
            if 'No error has been found' not in out or '"GROWTH"' not in out:
                raise RuntimeError('Growth theorem check failed:\n' + out[-2000:])
            open(okf, 'w').write('ok')
    extra = []
    if tier != 'quick':
        d = os.path.join(P.CACHE, 'regress')
        os.makedirs(d, exist_ok=True)
        text = ''.join('S L%d 0 | %s\n' % (i, s_) for i, s_ in enumerate(
            ['ctor_def A - 0 ; push_n A - 1000000', 'ctor_def A - 0 ; push_n A - 4000000', 'ctor_def B - 0 ; push_n B - 2000000',
             'ctor_n A - 0 3 ; push_n A - 1500000 ; shrink A - ; push_n A - 10']))
        path = os.path.join(d, 'longrun_%s.txt' % P.sha(text))
        open(path, 'w').write(text)
        for conf in (dict(NA=0, NB=8, ELEM=0), dict(NA=1, NB=3, ELEM=5), dict(NA=2, NB=0, ELEM=6, ALLOC=0)):
            extra.append(Jb.run_job(None, conf, 0, None, seed, None, False, path, 'long append runs up to 4e6 (%s)' % conf))
    res = dict(lines=0, ops=0, restarts=0, skipped=0, sample=[], sigs={}, nlines={}, violations=[], stims=0, stims_total=0, mc=None,
               drv='Growth', drvconf=None, fmode=0,
               label='design level (Growth.tla): allocations <= 2*ceil(log2 n)+2 and relocations <= 3n+2*ceil(log2 n)+3 for n <= %d under the weakest policy' % maxn,
               coverage_extra=dict(growth_theorem_checked_up_to_n=maxn))
    for r in extra:
        for k in ('lines', 'ops', 'skipped'):
            res[k] += r[k]
        if r.get('sigfile'):
            res.setdefault('sigfiles', []).append(r['sigfile'])
        for p, n in r['nlines'].items():
            res['nlines'][p] = res['nlines'].get(p, 0) + n
        res['violations'] += [dict(v, drvconf=r.get('drvconf'), fmode=r.get('fmode', 0)) for v in r['violations']]
    return res


# ------------------------------------------------------------------------------------------------ C02 unbounded shape
def shape_ind(tier, seed):
    """Apalache: the shape part of the storage invariant is inductive for UNBOUNDED inline capacity / size / capacity
    (spec/ShapeInd.tla).  Design level only; a failure is an error of the model, reported as internal error."""
    src = os.path.join(P.SPEC, 'ShapeInd.tla')
    rel = os.path.join(P.SPEC, 'ShapeRel.tla')
    wd = os.path.join(P.CACHE, 'apalache', P.sha('shapeind2', P.file_sha(src), P.file_sha(rel), P.file_sha(os.path.join(P.SPEC, 'ShapeProof.tla'))))
    okf = os.path.join(wd, 'ok')
    with P.Lock(wd):
        if not os.path.exists(okf):
            os.makedirs(wd, exist_ok=True)
            shutil.copy(src, os.path.join(wd, 'ShapeInd.tla'))
            shutil.copy(rel, os.path.join(wd, 'ShapeRel.tla'))
            # base case; inductive step under the quantified relation; inductive step under the closed form (ShapeRel, the one
            # transitions of the model checker and of the real code are validated against); Next is contained in the closed form
            for (init, nxt, inv, length) in (('Init', 'Next', 'Inv', 0), ('IndInit', 'Next', 'Inv', 1), ('IndInit', 'NextClosedA', 'Inv', 1),
                                             ('IndInit', 'Next', 'NextInClosed', 1)):
                p = subprocess.run(['apalache-mc', 'check', '--cinit=ConstInit', '--init=' + init, '--next=' + nxt, '--inv=' + inv, '--length=%d' % length,
                                    '--out-dir=' + os.path.join(wd, 'out'), 'ShapeInd.tla'], cwd=wd, stdout=subprocess.PIPE, stderr=subprocess.STDOUT, timeout=900)
                out = p.stdout.decode('utf-8', 'replace')
                if 'The outcome is: NoError' not in out:
                    raise RuntimeError('Apalache: ShapeInd %s / %s / %s failed:\n%s' % (init, nxt, inv, out[-2000:]))
            shutil.rmtree(os.path.join(wd, 'out'), ignore_errors=True)
            # the same statement as a machine-checked proof (TLAPS): Spec => []Inv
            shutil.copy(os.path.join(P.SPEC, 'ShapeProof.tla'), os.path.join(wd, 'ShapeProof.tla'))
            p = subprocess.run(['tlapm', '--toolbox', '0', '0', 'ShapeProof.tla'], cwd=wd, stdout=subprocess.PIPE, stderr=subprocess.STDOUT, timeout=1800)
            out = p.stdout.decode('utf-8', 'replace')
            import re as _re
            mm = _re.search(r'All (\d+) obligations? proved', out)
            if not mm:
                raise RuntimeError('TLAPS: ShapeProof not proved:\n%s' % out[-2000:])
            open(okf, 'w').write(mm.group(1))
    nobl = int(open(okf).read().strip() or 0) if open(okf).read().strip().isdigit() else 0
    return dict(lines=0, ops=0, restarts=0, skipped=0, sample=[], sigs={}, nlines={}, violations=[], stims=0, stims_total=0, mc=None,
                drv='ShapeInd', drvconf=None, fmode=0,
                label='design level (Apalache, spec/ShapeInd.tla): Init => Inv and Inv /\\ Next => Inv\' for unbounded N, size, capacity',
                coverage_extra=dict(apalache_inductive_invariant='ShapeInd.Inv: base and inductive step discharged (unbounded integers), also under the closed-form relation ShapeRel.StepClosed, which contains Next and which SVecMC asserts on every transition and ImplTrace evaluates on every recorded call',
                                    tlaps_proof='spec/ShapeProof.tla: Spec => []Inv, %d obligations, all proved by tlapm' % nobl, tlaps_obligations=nobl, tlaps_discharged=nobl))


EXTRA = {
    'C16': [order_selftest],
    'C01': [oracle_selftest],
    'C02': [shape_ind],
    'C03': [mc_impl],
    'C05': [mc_impl],
    'C06': [mc_impl],
    'C09': [mc_impl],
    'C14': [c14_growth],
    'C19': [c19],
    'C18': [c18_table],
    'C13': [c13_facts],
    'C17': [c17],
    'C08': [c08],
    'C20': [c20],
}


def replay_equiv(rec):
    import jobs as Jb
    ex = rec['extra']
    wd = os.path.join(P.CACHE, 'replay', P.sha('equiv', json.dumps(ex, sort_keys=True), time.time()))
    os.makedirs(wd, exist_ok=True)
    sf = os.path.join(wd, 'stim.txt')
    open(sf, 'w').write(ex['stimulus'] + '\n')
    tr = []
    for tag, (cxx, std, defs) in (('ref', ex['ref_build']), ('oth', ex['other_build'])):
        d = dict(ex['drv'])
        d.update(cxx=cxx, std=std, defs=defs)
        b = P.build_driver(d)
        tf = os.path.join(wd, tag + '.ndjson')
        Jb.run_driver(b['exe'], sf, tf, ex['fmode'])
        tr.append(tf)
    viol, hits, notes = _equiv(tr[0], tr[1], wd, 'e')
    if viol:
        print('VIOLATION property=C17 replay=(this file) check="%s" (%d differing lines; traces %s %s)' % (viol[0][2], len(viol), tr[0], tr[1]))
        return 1
    print('not reproduced: C17 equivalence holds for this stimulus (%d call results compared)' % hits)
    return 0


def replay_cx(rec):
    ex = rec['extra']
    NA, NB, elem, cxx, std = ex['task']
    wd = os.path.join(P.CACHE, 'replay', P.sha('cx', json.dumps(ex, sort_keys=True), time.time()))
    os.makedirs(wd, exist_ok=True)
    line = ex['program'] if ex['program'].startswith('S ') else 'S p0 0 | ' + ex['program']
    r = cx_run(('replay', [line + '\n'], NA, NB, elem, cxx, std, wd))
    same = [v for v in r['violations'] if v['check'] == rec['check']]
    if same:
        print('VIOLATION property=C08 replay=(this file) check="%s" %s' % (rec['check'], json.dumps(same[0]['extra'])[:500]))
        return 1
    print('not reproduced: %s (other C08 verdicts on this program: %s)' % (rec['check'], sorted({v['check'] for v in r['violations']})))
    return 0


def replay(rec):
    """Re-generate the fact behind a recorded violation and validate it again."""
    if rec.get('kind') == 'equiv':
        return replay_equiv(rec)
    if rec.get('kind') == 'cx':
        return replay_cx(rec)
    ex = rec['extra']
    gen = ex['gen']
    kind = gen['kind']
    cfg = tuple(gen['cfg'])
    if kind == 'layout':
        rows = layout_gen(cfg)
    elif kind == 'noexcept':
        rows = noexcept_gen(cfg)
    elif kind == 'conv':
        rows = conv_gen(cfg)
    elif kind == 'req':
        r = req_gen(cfg)
        tw = req_gen((cfg[0], TWIN[cfg[1]]) + cfg[2:])
        f = dict(t='req', op=r['op'], arch=r['arch'], N=r['N'], std=r['std'] + '-' + r['cxx'], needs=REQ_OPS[r['op']][1],
                 provides=ARCH[r['arch']][1], compiles=r['compiles'], twinKnown=r['arch'].endswith('Triv'), twinCompiles=tw['compiles'])
        rows = [(json.dumps(f), gen)]
    else:
        print('unknown replay kind %s' % kind)
        return 2
    res = facts_result([r[0] for r in rows], [r[1] for r in rows], 'replay', kind)
    same = [v for v in res['violations'] if v['property'] == rec['property'] and v['check'] == rec['check']
            and v['extra']['fact_sig'] == ex['fact_sig']]
    if same:
        print('VIOLATION property=%s replay=(this file) check="%s" fact=%s' % (rec['property'], rec['check'], json.dumps(same[0]['extra']['fact'])[:600]))
        return 1
    print('not reproduced: %s / %s' % (rec['property'], rec['check']))
    return 0
