"""Property-specific procedures beyond the shared trace jobs (filled in below)."""
EXTRA = {}


def replay(rec):
    print('replay of kind %s is not supported yet' % rec.get('kind'))
    return 2
