"""Property-specific procedures beyond the shared trace jobs: fact tables (C19 layout, C18 noexcept table,
C13 conversions / minimal requirements) validated by spec/Facts.tla, long append runs (C14), ...
Each returns a result dict in the same format as jobs.run_job."""
import concurrent.futures as cf
import hashlib
import itertools
import json
import os
import shutil
import subprocess
import time

import pipeline as P
import tlaparse

INC = os.path.join(P.REPO, 'source', 'include')


def h12(s):
    return hashlib.sha256(s.encode()).hexdigest()[:12]


def compile_prog(src, flags, std='c++17', cxx='g++', opt='-O0', syntax_only=False):
    """Compile a facts program (cached by header + source + flags).  Returns (exe or None, log)."""
    key = P.sha('facts', P.header_sha(), P.file_sha(src) if os.path.exists(src) else src, json.dumps(flags), std, cxx, opt, syntax_only)
    d = os.path.join(P.CACHE, 'facts', key)
    exe = os.path.join(d, 'prog')
    logf = os.path.join(d, 'log')
    with P.Lock(d):
        if os.path.exists(logf):
            return (exe if os.path.exists(exe) else None), open(logf).read()
        os.makedirs(d, exist_ok=True)
        cmd = [cxx, '-std=' + std, opt, '-w', '-I', INC] + flags
        cmd += ['-fsyntax-only', src] if syntax_only else ['-o', exe + '.tmp', src]
        p = subprocess.run(cmd, stdout=subprocess.PIPE, stderr=subprocess.STDOUT)
        log = p.stdout.decode('utf-8', 'replace')
        if p.returncode == 0 and not syntax_only:
            os.rename(exe + '.tmp', exe)
        open(logf, 'w').write(('OK\n' if p.returncode == 0 else 'FAIL\n') + log[-6000:])
        return (exe if os.path.exists(exe) else None), open(logf).read()


def validate_facts(lines, tag, prop_filter=None):
    """Validate fact lines with spec/Facts.tla.  Returns result dict pieces."""
    wd = os.path.join(P.CACHE, 'factrun', P.sha(tag, time.time(), os.getpid()))
    os.makedirs(wd, exist_ok=True)
    tf = os.path.join(wd, 'facts.ndjson')
    with open(tf, 'w') as f:
        for ln in lines:
            f.write(ln.rstrip('\n') + '\n')
    md = os.path.join(wd, 'md')
    rc, out = P.java_tlc(['-workers', '1', '-metadir', md, '-config', os.path.join(P.SPEC, 'Trace.cfg'),
                          os.path.join(P.SPEC, 'Facts.tla')], env={'TRACE': tf}, timeout=3600, xmx='4g')
    viol, hits, end = [], {}, None
    for v in tlaparse.values(out):
        if not v:
            continue
        if v[0] == 'V':
            viol.append((v[1], v[2], v[3]))
        elif v[0] == 'H':
            hits[v[1]] = v[2]
        elif v[0] == 'END':
            end = v[1]
    if 'Model checking completed. No error has been found.' not in out or end != len(lines):
        open(os.path.join(wd, 'tlc.out'), 'w').write(out)
        raise RuntimeError('TLC fact validation failed (%s): see %s\n%s' % (tag, wd, out[-2500:]))
    shutil.rmtree(wd, ignore_errors=True)
    return viol, hits


def fact_sig(f):
    t = f.get('t')
    if t == 'layout':
        return 'layout|S%s|Al%s|K%s|b%s' % (f['S'], f['Al'], f['K'], f['bits'])
    if t == 'noexcept':
        return 'noexcept|%s|N%s|I%s|%s%s%s|%s%s%s%s|%s|%s' % (f['op'], f['N'], f['I'], f['nmc'], f['nma'], f['nsw'], f['isStd'], f['pocma'],
                                                           f['pocs'], f['ae'], f['allocDefNoex'], f['cpp'])
    if t == 'itertraits':
        return 'iter|N%s|%s' % (f['N'], f['cpp'])
    if t in ('conv', 'convptr'):
        return '%s|%s|N%s|%s->%s|%s' % (t, f['op'], f['N'], f['src'], f['dst'], f['cpp'])
    if t == 'req':
        return 'req|%s|%s|%s' % (f['op'], f['arch'], f.get('std'))
    if t == 'compile':
        return 'compile|%s|%s' % (f['what'], f.get('cfg'))
    return json.dumps(f, sort_keys=True)[:80]


def facts_result(lines, meta, label, kind, prop_filter=None):
    """meta[i]: how to regenerate line i (for replay)."""
    viol, hits = validate_facts(lines, label)
    sigs, nlines = {}, {}
    facts = [json.loads(x) for x in lines]
    for i, ps in hits.items():
        for p in ps:
            sigs.setdefault(p, set()).add(h12(fact_sig(facts[i - 1])))
            nlines[p] = nlines.get(p, 0) + 1
    violations = []
    for (i, p, n) in viol:
        f = facts[i - 1]
        violations.append(dict(property=p, check=n, op=f.get('op', f.get('t')), cfg=fact_sig(f), k=None, fk=None, pre=None, kind='facts',
                               extra=dict(gen=meta[i - 1], fact=f, fact_sig=fact_sig(f), factkind=kind), out=None, a=None))
    return dict(lines=len(lines), ops=len(lines), restarts=0, skipped=0, sample=[x[:1200] for x in lines[:2]],
                sigs={p: sorted(s) for p, s in sigs.items()}, nlines=nlines, violations=violations, stims=len(lines),
                stims_total=len(lines), mc=None, drv=label, drvconf=None, fmode=0, label=label)


def _run_many(fn, items, workers=None):
    with cf.ThreadPoolExecutor(max_workers=workers or max(2, P.NCPU - 2)) as ex:
        return list(ex.map(fn, items))


# ------------------------------------------------------------------------------------------------ C19
LAYOUT_K = [0, 1, 4, 8, 12, 16, 20, 24]
LAYOUT_BITS = [64, 32, 16, 8]


def layout_gen(cfg):
    K, bits, std, cxx = cfg
    exe, log = compile_prog(os.path.join(P.HARNESS, 'facts_layout.cpp'), ['-DLK=%d' % K, '-DLBITS=%d' % bits], std, cxx)
    if not exe:
        raise RuntimeError('facts_layout does not compile (%s): %s' % (cfg, log[-1500:]))
    out = subprocess.run([exe], stdout=subprocess.PIPE).stdout.decode()
    return [(ln, dict(kind='layout', cfg=list(cfg))) for ln in out.splitlines() if ln.startswith('{')]


def c19(tier, seed):
    grid = [(K, b) for K in LAYOUT_K for b in LAYOUT_BITS]
    if tier == 'quick':
        rot = seed % len(grid)
        pick = [(0, 64), (0, 16), (8, 32)] + [grid[(rot + 7 * i) % len(grid)] for i in range(3)]
        cfgs = sorted({(K, b, 'c++17', 'g++') for K, b in pick})
    else:
        cfgs = [(K, b, 'c++17', 'g++') for K, b in grid] + [(0, 64, 'c++11', 'clang++'), (8, 16, 'c++20', 'clang++'), (0, 64, 'c++23', 'g++')]
    rows = [r for rs in _run_many(layout_gen, cfgs) for r in rs]
    res = facts_result([r[0] for r in rows], [r[1] for r in rows], 'layout facts: %d configurations (state bytes, size_type bits, std, compiler)' % len(cfgs), 'layout')
    res['coverage_extra'] = dict(explanation='sizeof/alignof/default inline capacity/inline buffer offset of %d real class layouts '
                                 '(Blob<S,Al> for S in 1..72, Al | S; allocator state bytes x size_type width: %s) validated against the '
                                 'C19 predicate in spec/Facts.tla; exhaustive over the element grid for the listed allocator configurations'
                                 % (len(rows), sorted({(c[0], c[1]) for c in cfgs})),
                                 exhaustive=(tier != 'quick'))
    return res


# ------------------------------------------------------------------------------------------------ C18 table
def noexcept_gen(cfg):
    (nmc, nma, nsw, akind, pocma, pocs, ae, defnoex, std, cxx) = cfg
    flags = ['-DE_NMC=%d' % nmc, '-DE_NMA=%d' % nma, '-DE_NSW=%d' % nsw, '-DA_KIND=%d' % akind, '-DA_POCMA=%d' % pocma,
             '-DA_POCS=%d' % pocs, '-DA_AE=%d' % ae, '-DA_DEFNOEX=%d' % defnoex]
    exe, log = compile_prog(os.path.join(P.HARNESS, 'facts_noexcept.cpp'), flags, std, cxx)
    if not exe:
        raise RuntimeError('facts_noexcept does not compile (%s): %s' % (cfg, log[-1500:]))
    out = subprocess.run([exe], stdout=subprocess.PIPE).stdout.decode()
    return [(ln, dict(kind='noexcept', cfg=list(cfg))) for ln in out.splitlines() if ln.startswith('{')]


def c18_table(tier, seed):
    elems = list(itertools.product((1, 0), repeat=3))
    allocs = [(0, 0, 0, 0, 1)] + [(1, a, b, c, d) for a, b, c in itertools.product((0, 1), repeat=3) for d in (1, 0)]
    if tier == 'quick':
        stds = [('c++17', 'g++'), ('c++11', 'g++'), ('c++20', 'clang++')]
        cfgs = [e + a + stds[0] for e in elems for a in allocs if a[4] == 1 or a[1:4] == (0, 0, 0)]
        rot = seed % 8
        cfgs += [elems[(rot + i) % 8] + allocs[(rot * 3 + 5 * i) % len(allocs)] + s for i in range(6) for s in stds[1:]]
    else:
        stds = [('c++11', 'g++'), ('c++14', 'g++'), ('c++17', 'g++'), ('c++20', 'g++'), ('c++23', 'g++'), ('c++14', 'clang++'),
                ('c++17', 'clang++'), ('c++20', 'clang++')]
        cfgs = [e + a + s for e in elems for a in allocs for s in stds]
    cfgs = sorted(set(cfgs))
    rows = [r for rs in _run_many(noexcept_gen, cfgs) for r in rs]
    res = facts_result([r[0] for r in rows], [r[1] for r in rows],
                       'noexcept table: %d (element traits x allocator traits x standard) instantiations' % len(cfgs), 'noexcept')
    return res


# ------------------------------------------------------------------------------------------------ C13 conversions
def conv_gen(cfg):
    part, std, cxx = cfg
    src = os.path.join(P.HARNESS, 'facts_conv.cpp')
    rows = []
    exe, log = compile_prog(src, ['-DPART=%d' % part, '-DCONV_SVIT_DIFF=1'], std, cxx)
    what = 'range of iterators of a small_vector<Src> accepted by small_vector<Dst> (construct from a convertible value type)'
    rows.append((json.dumps(dict(t='compile', prop='C13', what=what, cfg='part%d-%s-%s' % (part, std, cxx), compiles=bool(exe))),
                 dict(kind='conv', cfg=list(cfg))))
    if not exe:
        exe, log2 = compile_prog(src, ['-DPART=%d' % part, '-DCONV_SVIT_DIFF=0'], std, cxx)
        what2 = 'ranges (pointers, forward iterators, move iterators) of a convertible value type accepted by construct / assign / insert / append'
        rows.append((json.dumps(dict(t='compile', prop='C13', what=what2, cfg='part%d-%s-%s' % (part, std, cxx), compiles=bool(exe),
                                     log=(log2 if not exe else '')[-600:])), dict(kind='conv', cfg=list(cfg))))
        if not exe:
            return rows
    out = subprocess.run([exe], stdout=subprocess.PIPE).stdout.decode()
    rows += [(ln, dict(kind='conv', cfg=list(cfg))) for ln in out.splitlines() if ln.startswith('{')]
    return rows


# ------------------------------------------------------------------------------------------------ C13 archetypes
ARCH = {
    # name: (class body, provided named requirements)
    'Regular': ('''int v; A () : v (0) { } A (const A &o) : v (o.v) { } A (A &&o) noexcept : v (o.v) { }
                   A &operator= (const A &o) { v = o.v; return *this; } A &operator= (A &&o) noexcept { v = o.v; return *this; } ~A () { }''',
                ['DefaultInsertable', 'CopyInsertable', 'MoveInsertable', 'CopyAssignable', 'MoveAssignable', 'Erasable', 'EmplaceConstructible']),
    'RegularTriv': ('int v;',
                    ['DefaultInsertable', 'CopyInsertable', 'MoveInsertable', 'CopyAssignable', 'MoveAssignable', 'Erasable', 'EmplaceConstructible']),
    'NoAssign': ('''int v; A () : v (0) { } A (const A &o) : v (o.v) { } ~A () { }
                    A &operator= (const A &) = delete;''',
                 ['DefaultInsertable', 'CopyInsertable', 'MoveInsertable', 'Erasable', 'EmplaceConstructible']),
    'NoAssignTriv': ('''int v; A () = default; A (const A &) = default; A &operator= (const A &) = delete;''',
                     ['DefaultInsertable', 'CopyInsertable', 'MoveInsertable', 'Erasable', 'EmplaceConstructible']),
    'MoveOnlyNoAssign': ('''int v; A () : v (0) { } A (A &&o) noexcept : v (o.v) { } A (const A &) = delete; ~A () { }
                            A &operator= (A &&) = delete; A &operator= (const A &) = delete;''',
                         ['DefaultInsertable', 'MoveInsertable', 'Erasable', 'EmplaceConstructible']),
    'MoveOnlyNoAssignTriv': ('''int v; A () = default; A (A &&) = default; A (const A &) = delete;
                                A &operator= (A &&) = delete; A &operator= (const A &) = delete;''',
                             ['DefaultInsertable', 'MoveInsertable', 'Erasable', 'EmplaceConstructible']),
    'NoDefault': ('''int v; explicit A (int x) : v (x) { } A (const A &o) : v (o.v) { } A &operator= (const A &o) { v = o.v; return *this; } ~A () { }''',
                  ['CopyInsertable', 'MoveInsertable', 'CopyAssignable', 'MoveAssignable', 'Erasable', 'EmplaceConstructible']),
    'NoDefaultTriv': ('''int v; explicit A (int x) : v (x) { } A (const A &) = default; A &operator= (const A &) = default;''',
                      ['CopyInsertable', 'MoveInsertable', 'CopyAssignable', 'MoveAssignable', 'Erasable', 'EmplaceConstructible']),
}
TWIN = {'Regular': 'RegularTriv', 'NoAssign': 'NoAssignTriv', 'MoveOnlyNoAssign': 'MoveOnlyNoAssignTriv', 'NoDefault': 'NoDefaultTriv'}
TWIN.update({v: k for k, v in list(TWIN.items())})

# operation: (statement using `V v;` / values, documented requirements (README "brief"))
REQ_OPS = {
    'ctor_count':        ('V v (3);', ['DefaultInsertable']),
    'ctor_count_value':  ('V v (3, mk ());', ['CopyInsertable']),
    'ctor_copy':         ('V a; V v (a);', ['CopyInsertable']),
    'ctor_move':         ('V a; V v (std::move (a));', ['MoveInsertable']),
    'ctor_range_ptr':    ('const A *p = nullptr; V v (p, p);', ['EmplaceConstructible', 'CopyInsertable']),
    'resize_count':      ('V v; v.resize (3);', ['MoveInsertable', 'DefaultInsertable']),
    'resize_count_value': ('V v; v.resize (3, mk ());', ['CopyInsertable']),
    'push_back_copy':    ('V v; const A a = mk (); v.push_back (a);', ['CopyInsertable']),
    'push_back_move':    ('V v; v.push_back (mk ());', ['MoveInsertable']),
    'emplace_back_move': ('V v; v.emplace_back (mk ());', ['EmplaceConstructible', 'MoveInsertable']),
    'reserve':           ('V v; v.reserve (10);', ['MoveInsertable']),
    'shrink_to_fit':     ('V v; v.shrink_to_fit ();', ['MoveInsertable']),
    'pop_back_clear':    ('V v; v.clear (); if (! v.empty ()) v.pop_back ();', ['Erasable']),
    'append_range':      ('V v; const A *p = nullptr; v.append (p, p);', ['EmplaceConstructible', 'CopyInsertable', 'MoveInsertable']),
    'append_move_range': ('V v; A *p = nullptr; v.append (std::make_move_iterator (p), std::make_move_iterator (p));', ['EmplaceConstructible', 'MoveInsertable']),
    'insert_value':      ('V v; const A a = mk (); v.insert (v.begin (), a);', ['CopyInsertable', 'CopyAssignable', 'MoveInsertable', 'MoveAssignable']),
    'erase':             ('V v; if (! v.empty ()) v.erase (v.begin ());', ['MoveAssignable', 'Erasable']),
    'assign_count':      ('V v; v.assign (2, mk ());', ['CopyInsertable', 'CopyAssignable']),
    'swap':              ('V a, v; v.swap (a);', ['MoveInsertable', 'MoveAssignable', 'Swappable']),
}


def req_source(op, arch, N):
    body, prov = ARCH[arch]
    stmt, needs = REQ_OPS[op]
    mk = 'A (1)' if arch.startswith('NoDefault') else 'A ()'
    return ('#include <gch/small_vector.hpp>\n#include <iterator>\n#include <utility>\nstruct A { %s };\n'
            'static A mk () { return %s; }\ntypedef gch::small_vector<A, %d> V;\nvoid f () { %s }\nint main () { f (); return 0; }\n'
            % (body, mk, N, stmt))


def req_gen(cfg):
    op, arch, N, std, cxx = cfg
    src = req_source(op, arch, N)
    d = os.path.join(P.CACHE, 'reqsrc')
    os.makedirs(d, exist_ok=True)
    path = os.path.join(d, 'req_%s.cpp' % P.sha(src))
    if not os.path.exists(path):
        open(path + '.tmp%d' % os.getpid(), 'w').write(src)
        os.replace(path + '.tmp%d' % os.getpid(), path)
    flags = ['-DGCH_DISABLE_CONCEPTS'] if False else []
    exe, log = compile_prog(path, flags, std, cxx, syntax_only=True)
    ok = log.startswith('OK')
    return dict(op=op, arch=arch, N=N, std=std, cxx=cxx, compiles=ok, log=log[-800:])


def c13_facts(tier, seed):
    if tier == 'quick':
        ccfgs = [(p, 'c++17', 'g++') for p in range(5)] + [(4, 'c++20', 'g++')]
        stds = [('c++17', 'g++'), ('c++20', 'g++')]
        Ns = [2]
    else:
        ccfgs = [(p, s, c) for p in range(5) for (s, c) in (('c++11', 'g++'), ('c++17', 'g++'), ('c++20', 'g++'), ('c++20', 'clang++'))]
        stds = [('c++11', 'g++'), ('c++17', 'g++'), ('c++20', 'g++'), ('c++17', 'clang++'), ('c++20', 'clang++')]
        Ns = [0, 2]
    rcfgs = [(op, arch, N, s, c) for op in REQ_OPS for arch in ARCH for N in Ns for (s, c) in stds]
    with cf.ThreadPoolExecutor(max_workers=max(2, P.NCPU - 2)) as ex:
        conv_f = [ex.submit(conv_gen, c) for c in ccfgs]
        req_f = [ex.submit(req_gen, c) for c in rcfgs]
        conv_rows = [r for f in conv_f for r in f.result()]
        reqs = [f.result() for f in req_f]
    by = {(r['op'], r['arch'], r['N'], r['std'], r['cxx']): r for r in reqs}
    rows = list(conv_rows)
    for r in reqs:
        tw = by.get((r['op'], TWIN[r['arch']], r['N'], r['std'], r['cxx']))
        f = dict(t='req', op=r['op'], arch=r['arch'], N=r['N'], std=r['std'] + '-' + r['cxx'], needs=REQ_OPS[r['op']][1],
                 provides=ARCH[r['arch']][1], compiles=r['compiles'], twinKnown=tw is not None and r['arch'].endswith('Triv'),
                 twinCompiles=bool(tw and tw['compiles']))
        rows.append((json.dumps(f), dict(kind='req', cfg=[r['op'], r['arch'], r['N'], r['std'], r['cxx']])))
    res = facts_result([r[0] for r in rows], [r[1] for r in rows],
                       'conversion facts (%d type-pair x operation x iterator-kind records) + minimal-requirement compile grid (%d)' %
                       (len(conv_rows), len(reqs)), 'c13')
    return res


EXTRA = {
    'C19': [c19],
    'C18': [c18_table],
    'C13': [c13_facts],
}


def replay(rec):
    """Re-generate the fact behind a recorded violation and validate it again."""
    ex = rec['extra']
    gen = ex['gen']
    kind = gen['kind']
    cfg = tuple(gen['cfg'])
    if kind == 'layout':
        rows = layout_gen(cfg)
    elif kind == 'noexcept':
        rows = noexcept_gen(cfg)
    elif kind == 'conv':
        rows = conv_gen(cfg)
    elif kind == 'req':
        r = req_gen(cfg)
        tw = req_gen((cfg[0], TWIN[cfg[1]]) + cfg[2:])
        f = dict(t='req', op=r['op'], arch=r['arch'], N=r['N'], std=r['std'] + '-' + r['cxx'], needs=REQ_OPS[r['op']][1],
                 provides=ARCH[r['arch']][1], compiles=r['compiles'], twinKnown=r['arch'].endswith('Triv'), twinCompiles=tw['compiles'])
        rows = [(json.dumps(f), gen)]
    else:
        print('unknown replay kind %s' % kind)
        return 2
    res = facts_result([r[0] for r in rows], [r[1] for r in rows], 'replay', kind)
    same = [v for v in res['violations'] if v['property'] == rec['property'] and v['check'] == rec['check']
            and v['extra']['fact_sig'] == ex['fact_sig']]
    if same:
        print('VIOLATION property=%s replay=(this file) check="%s" fact=%s' % (rec['property'], rec['check'], json.dumps(same[0]['extra']['fact'])[:600]))
        return 1
    print('not reproduced: %s / %s' % (rec['property'], rec['check']))
    return 0
