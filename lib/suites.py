"""Which model-checking instances and which driver configurations each tier runs.

A job = (MC instance -> stimuli) x (driver build) x fault mode x sample size.  All trace-decided
properties share the same job pool: a property's verdict is the set of TLC verdict lines tagged
with that property over every job listed for it (jobs are cached, so the pool is paid once)."""

import itertools


def one(N, copyable=True, nothrow=True, maxlen=4, maxcnt=2, kinds=(0, 1, 3, 4, 7, 8), maxcap=16, allocids=(0,), **kw):
    if not copyable:
        kinds = (5, 7, 8)  # move-only elements: ranges are consumed through move_iterators or built from construct-only sources
    d = dict(NA=N, NB=N, Profile='one', MaxLen=maxlen, MaxCnt=maxcnt, MaxCap=maxcap, Copyable=copyable,
             NothrowMove=nothrow, Kinds=list(kinds), AllocIds=list(allocids))
    d.update(kw)
    return d


def two(NA, NB, maxlen=3, maxcap=8, allocids=(1, 2), copyable=True, **traits):
    d = dict(NA=NA, NB=NB, Profile='two', MaxLen=maxlen, MaxCnt=1, MaxCap=maxcap, AllocIds=list(allocids),
             Copyable=copyable, Kinds=[4])
    d.update(traits)
    return d


def mx(N, maxsize, maxcnt=3, kinds=(0, 1, 4, 7, 8)):
    return dict(NA=N, NB=N, Profile='max', MaxLen=maxsize + 2, MaxCnt=maxcnt, MaxCap=maxsize + 2, MaxSize=maxsize,
                Kinds=list(kinds), AllocIds=[0])


def order(maxlen, alphabet=(1, 2, 3), flt=False):
    d = dict(Order=True, Alphabet=list(alphabet), MaxLen=maxlen)
    if flt:
        d['Flt'] = True
    return d


def wide(N, maxsize, kinds=(0, 1, 4, 7, 8)):
    return dict(NA=N, NB=N, Profile='wide', MaxLen=400, MaxCnt=3, MaxCap=100000, MaxSize=maxsize, Kinds=list(kinds), AllocIds=[0])


def drv(NA, NB=None, elem=0, **kw):
    d = dict(NA=NA, NB=NA if NB is None else NB, ELEM=elem)
    d.update(kw)
    return d


NT, TM, MO, MOT, CO, TRIV, INT, MA, MC, FLT, SW, PM, NC = range(13)


def traits_mc(pocca, pocma, pocs, ae):
    return dict(POCCA=bool(pocca), POCMA=bool(pocma), POCS=bool(pocs), AE=bool(ae))


def traits_drv(pocca, pocma, pocs, ae):
    return dict(POCCA=pocca, POCMA=pocma, POCS=pocs, AE=ae)


ALL_TRAITS = list(itertools.product((0, 1), repeat=4))     # (pocca, pocma, pocs, ae)


def job(mc, dr, fmode, n=None, tags=(), label=''):
    return dict(mc=mc, drv=dr, fmode=fmode, max_stims=n, tags=set(tags), label=label,
                l2=(('one' in tags or 'two' in tags or 'order' in tags) and 'tracked' in tags and 'fault' in tags and 'san' not in tags))


def regress_jobs():
    """Curated stimuli that once exposed a defect (or a blind spot of the sampling): always replayed."""
    import json
    import os
    import hashlib
    root = os.path.dirname(os.path.dirname(os.path.abspath(__file__)))
    out = []
    for i, r in enumerate(json.load(open(os.path.join(root, 'stimuli', 'regress.json')))):
        text = ''.join('S g%d_%d 0 | %s\n' % (i, k, s) for k, s in enumerate(r['stims']))
        d = os.path.join(root, '.cache', 'regress')
        os.makedirs(d, exist_ok=True)
        path = os.path.join(d, 'r%d_%s.txt' % (i, hashlib.sha256(text.encode()).hexdigest()[:10]))
        if not os.path.exists(path):
            open(path, 'w').write(text)
        j = job(None, r['drv'], r['fmode'], None, set(r['tags']) | {'regress'}, r['label'])
        j['stim_file'] = path
        out.append(j)
    return out


def jobs_for(tier, seed):
    """The job pool of a tier.  `tags` name what the job is there for (used to pick jobs per property)."""
    J = regress_jobs()
    rot = seed % 16
    if tier == 'quick':
        J.append(job(one(2), drv(2, elem=NT), 1, 1200, {'one', 'fault', 'tracked'}, 'one N=2 nothrow-move, single faults'))
        J.append(job(one(0, nothrow=False), drv(0, elem=TM), 1, 900, {'one', 'fault', 'tracked'}, 'one N=0 throwing-move'))
        J.append(job(one(3, copyable=False, nothrow=False), drv(3, elem=MOT), 1, 700, {'one', 'fault', 'tracked'}, 'one N=3 move-only throwing'))
        J.append(job(one(1), drv(1, elem=CO, CONSTRUCT=1), 1, 500, {'one', 'fault', 'tracked'}, 'one N=1 copy-only, allocator construct/destroy'))
        J.append(job(one(2), drv(2, elem=TRIV), 0, 2000, {'one', 'triv'}, 'one N=2 trivially copyable twin'))
        J.append(job(one(2), drv(2, elem=INT, ALLOC=0), 0, 1500, {'one', 'triv', 'stdalloc'}, 'one N=2 int, std::allocator'))
        J.append(job(one(2, IsStd=True), drv(2, elem=NT, ALLOC=0), 1, 700, {'one', 'fault', 'tracked', 'stdalloc'}, 'one N=2 std::allocator'))
        # two containers: the trait dispatch is the essence of C07 / C09 -- all 16 combinations every time,
        # a stratified sample of each instance (faults on a seed-rotated quarter of them)
        for i, tr in enumerate(ALL_TRAITS):
            fm = 1 if (i + rot) % 4 == 0 else 0
            # a marking select_on_container_copy_construction (id + 50) makes every misplaced call of it visible;
            # always on where copy assignment propagates (the two are easily confused), alternating elsewhere
            sc = 1 if (tr[0] or (i + rot) % 2 == 0) else 0
            J.append(job(two(2, 2, SOCCC=sc, **traits_mc(*tr)), drv(2, 2, elem=NT if i % 2 == 0 else TM, SOCCC=sc, **traits_drv(*tr)), fm, 350 if fm else 500,
                         {'two', 'tracked', 'traits'} | ({'fault'} if fm else set()), 'two N=2,2 traits ca/ma/s/ae=%d%d%d%d soccc=%d' % (tr + (sc,))))
        # the same 16 combinations between DIFFERENT inline capacities (the library has separate overloads for a source with a
        # smaller-or-equal and with a larger inline capacity, each with its own trait dispatch)
        for i, tr in enumerate(ALL_TRAITS):
            fm = 1 if (i + rot) % 4 == 2 else 0
            na, nb = ((2, 3), (3, 2))[(i + rot) % 2]
            J.append(job(two(na, nb, **traits_mc(*tr)), drv(na, nb, elem=TM if i % 2 == 0 else NT, **traits_drv(*tr)), fm, 250 if fm else 400,
                         {'two', 'tracked', 'traits', 'mixedN'} | ({'fault'} if fm else set()), 'two N=%d,%d traits ca/ma/s/ae=%d%d%d%d' % ((na, nb) + tr)))
        # an element type with nothrow moves but its own, potentially throwing, ADL swap (no temporaries): the container's swap
        # must use it, may throw, and must not be declared / treated as noexcept
        J.append(job(two(2, 2, **traits_mc(0, 0, 0, 0)), drv(2, 2, elem=SW), 1, 500, {'two', 'tracked', 'traits', 'fault'}, 'two N=2,2 element with a throwing ADL swap'))
        J.append(job(two(2, 2, **traits_mc(0, 0, 1, 0)), drv(2, 2, elem=SW, POCS=1, std='c++11'), 1, 400, {'two', 'tracked', 'traits', 'fault'}, 'two N=2,2 element with a throwing ADL swap, POCS, C++11'))
        # trivially copyable and trivially default constructible, but zero bytes are not its value-initialised state
        # (it holds a pointer to data member): "zero the storage" shortcuts show
        J.append(job(one(2), drv(2, elem=PM, ALLOC=0), 0, 800, {'one', 'triv', 'stdalloc'}, 'one N=2 trivial element holding a pointer to member, std::allocator'))
        J.append(job(one(0), drv(0, elem=PM), 0, 600, {'one', 'triv'}, 'one N=0 trivial element holding a pointer to member'))
        # mixed exception specifications (nothrow move-assign + throwing move-ctor and vice versa): the internal
        # noexcept specifications must be at least as weak as what the routine really does (C18)
        J.append(job(two(2, 2, **traits_mc(0, 1, 0, 0)), drv(2, 2, elem=MA, POCMA=1), 1, 500, {'two', 'tracked', 'traits', 'fault'}, 'two N=2,2 POCMA, nothrow move-assign / throwing move-ctor'))
        J.append(job(two(2, 3, IsStd=True, allocids=(0,)), drv(2, 3, elem=MA, ALLOC=0), 1, 500, {'two', 'tracked', 'fault', 'mixedN', 'stdalloc'}, 'two N=2,3 std::allocator, nothrow move-assign / throwing move-ctor'))
        J.append(job(two(2, 2, **traits_mc(0, 0, 1, 1)), drv(2, 2, elem=MC, POCS=1, AE=1), 1, 500, {'two', 'tracked', 'traits', 'fault'}, 'two N=2,2 POCS+AE, throwing move-assign / nothrow move-ctor'))
        J.append(job(one(2, nothrow=False), drv(2, elem=MC), 1, 600, {'one', 'tracked', 'fault'}, 'one N=2 throwing move-assign / nothrow move-ctor'))
        tr = ALL_TRAITS[(rot + 7) % 16]
        J.append(job(two(0, 2, **traits_mc(*tr)), drv(0, 2, elem=TM, **traits_drv(*tr)), 1, 800,
                     {'two', 'fault', 'tracked', 'traits', 'mixedN'}, 'two N=0,2 traits %d%d%d%d' % tr))
        tr = ALL_TRAITS[(rot + 11) % 16]
        J.append(job(two(3, 2, **traits_mc(*tr)), drv(3, 2, elem=NT, **traits_drv(*tr)), 1, 900,
                     {'two', 'tracked', 'traits', 'mixedN', 'fault'}, 'two N=3,2 nothrow-move traits %d%d%d%d' % tr))
        J.append(job(two(2, 2, IsStd=True, allocids=(0,)), drv(2, 2, elem=NT, ALLOC=0), 0, 1200,
                     {'two', 'tracked', 'stdalloc'}, 'two N=2,2 std::allocator'))
        J.append(job(mx(2, 5), drv(2, elem=NT, MAXSZ=5), 0, 1500, {'max', 'tracked'}, 'max_size()=5, N=2'))
        J.append(job(mx(0, 6), drv(0, elem=TRIV, MAXSZ=6), 0, 1500, {'max', 'triv'}, 'max_size()=6, N=0 trivially copyable'))
        # long random behaviours (tlc -simulate): state the shape abstraction does not contain (moved-from leftovers,
        # stale bytes, block-id history); faults on the last call only
        tr = ALL_TRAITS[(rot * 3 + 1) % 16]
        J.append(job(dict(two(2, 2, maxlen=4, maxcap=16, **traits_mc(*tr)), Sim=[50, 40]), drv(2, 2, elem=TM, **traits_drv(*tr)), 1, None,
                     {'two', 'tracked', 'traits', 'fault', 'sim'}, 'long random behaviours (40 calls), two N=2,2 traits %d%d%d%d' % tr))
        J.append(job(dict(one(2, maxlen=5, maxcnt=2), Sim=[40, 40]), drv(2, elem=NT), 1, None,
                     {'one', 'tracked', 'fault', 'sim'}, 'long random behaviours (40 calls), one N=2'))
        # narrow size_type: boundary arguments around max_size() and around 2^8 (C12), 8-bit exhaustively in thorough
        J.append(job(wide(2, 63), drv(2, elem=TRIV, SIZET=8), 0, None, {'max', 'triv', 'narrow'}, '8-bit size_type, N=2 trivially copyable, boundary arguments'))
        J.append(job(wide(0, 21), drv(0, elem=NT, SIZET=8), 1, 250, {'max', 'tracked', 'narrow', 'fault'}, '8-bit size_type, N=0 nothrow-move, boundary arguments + faults'))
        J.append(job(one(2, maxlen=3, maxcnt=2), drv(2, elem=TM, SIZET=16), 0, 1200, {'one', 'tracked', 'narrow'}, '16-bit size_type, N=2'))
        # C16: all pairs of sequences over {1,2,3} up to length 3 (1600 pairs), equal and mixed inline capacities
        J.append(job(order(3), drv(1, 3, elem=NT), 0, None, {'order', 'tracked'}, 'order: all pairs len<=3, N=1 vs 3, C++17 six operators'))
        J.append(job(order(3), drv(2, 2, elem=TRIV, SPACESHIP=1, std='c++20'), 0, None, {'order', 'triv'}, 'order: all pairs len<=3, N=2,2, C++20 element with <=>'))
        J.append(job(order(3), drv(3, 0, elem=TM, std='c++20'), 1, None, {'order', 'tracked', 'fault'}, 'order: all pairs len<=3, N=3 vs 0, C++20 element without <=>, throwing moves, faults in erase / erase_if'))
        # floating-point elements: -0.0 (code 2) equals +0.0 (code 0) with different bytes, NaN (code 3) equals nothing and is
        # unordered -- == is not byte identity and < is only a partial order (bytewise shortcuts would show here)
        J.append(job(order(3, alphabet=(0, 2, 3), flt=True), drv(2, 2, elem=FLT), 0, None, {'order', 'triv'}, 'order: double with -0.0 / NaN, all pairs len<=3, N=2,2, C++17'))
        J.append(job(order(3, alphabet=(0, 2, 3), flt=True), drv(2, 0, elem=FLT, std='c++14'), 0, None, {'order', 'triv'}, 'order: double with -0.0 / NaN, all pairs len<=3, N=2 vs 0, C++14 (pre-C++20 operator set, mixed capacities)'))
        J.append(job(order(3, alphabet=(0, 2, 3), flt=True), drv(1, 3, elem=FLT, std='c++20'), 0, None, {'order', 'triv'}, 'order: double with -0.0 / NaN, all pairs len<=3, N=1 vs 3, C++20 (<=> is a partial ordering)'))
        J.append(job(order(2, alphabet=(0, 1, 2, 3), flt=True), drv(0, 0, elem=FLT, ALLOC=0, std='c++20', cxx='clang++'), 0, None, {'order', 'triv', 'stdalloc'}, 'order: double with -0.0 / NaN / 1.0, all pairs len<=2, N=0,0, std::allocator, clang C++20'))
        # fancy pointers: the ledger allocator hands out FancyPtr<T> (XOR-encoded address, no implicit conversion to T*,
        # value-initialised = null); the same contract, the same L2 scripts
        J.append(job(one(2), drv(2, elem=NT, ALLOC=2), 1, 500, {'one', 'fault', 'tracked'}, 'one N=2 nothrow-move, fancy pointers'))
        J.append(job(one(0), drv(0, elem=TRIV, ALLOC=2, std='c++20'), 0, 1000, {'one', 'triv'}, 'one N=0 trivially copyable, fancy pointers, C++20'))
        tr = ALL_TRAITS[(rot * 5 + 3) % 16]
        J.append(job(two(2, 3, **traits_mc(*tr)), drv(2, 3, elem=TM, ALLOC=2, std='c++14', **traits_drv(*tr)), 1, 400,
                     {'two', 'fault', 'tracked', 'traits', 'mixedN'}, 'two N=2,3 throwing-move, fancy pointers, C++14, traits %d%d%d%d' % tr))
        # two containers of trivially copyable elements (the memcpy shortcuts of copy / move / swap between containers):
        # the no-propagation / unequal-allocator routes always, two more trait combinations rotating
        for tr in ((0, 0, 0, 0), ALL_TRAITS[(rot * 3 + 5) % 16], ALL_TRAITS[(rot * 7 + 10) % 16]):
            J.append(job(two(2, 2, **traits_mc(*tr)), drv(2, 2, elem=TRIV, **traits_drv(*tr)), 0, 700,
                         {'two', 'triv', 'traits'}, 'two N=2,2 trivially copyable, traits %d%d%d%d' % tr))
        J.append(job(two(3, 2, IsStd=True, allocids=(0,)), drv(3, 2, elem=INT, ALLOC=0), 0, 700, {'two', 'triv', 'stdalloc', 'mixedN'}, 'two N=3,2 int, std::allocator'))
        # allocators with only one of construct / destroy; a construct() whose value-construction form leaves a mark
        # (default-init-allocator pattern): value-constructed elements must be what the allocator made them
        J.append(job(one(2), drv(2, elem=TRIV, CONSTRUCT=2), 0, 1200, {'one', 'triv'}, 'one N=2 trivially copyable, construct-only allocator marking value-construction'))
        J.append(job(one(0), drv(0, elem=NT, CONSTRUCT=2), 1, 500, {'one', 'fault', 'tracked'}, 'one N=0 nothrow-move, construct-only allocator marking value-construction'))
        J.append(job(one(2, nothrow=False), drv(2, elem=TM, CONSTRUCT=3, std='c++14'), 1, 400, {'one', 'fault', 'tracked'}, 'one N=2 throwing-move, destroy-only allocator, C++14'))
        # a handle-like element: copying cannot throw either, moving still alters the source -- the only flavour for which
        # is_nothrow_copy_constructible / is_nothrow_constructible<T, const T&> holds together with an observable move
        J.append(job(one(2), drv(2, elem=NC), 1, 900, {'one', 'fault', 'tracked'}, 'one N=2 nothrow-copy + nothrow-move (handle-like) element'))
        J.append(job(two(2, 3, **traits_mc(0, 0, 0, 0)), drv(2, 3, elem=NC), 0, 400, {'two', 'tracked', 'traits', 'mixedN'}, 'two N=2,3 nothrow-copy + nothrow-move (handle-like) element'))
    else:
        for N in (0, 2, 3):
            J.append(job(one(N, maxlen=5, maxcnt=3), drv(N, elem=NC), 1, None, {'one', 'fault', 'tracked'}, 'one N=%d nothrow-copy + nothrow-move (handle-like) element, all single faults' % N))
        for (na, nb, tr) in ((2, 2, (0, 0, 0, 0)), (2, 3, (1, 1, 1, 0)), (3, 2, (0, 0, 0, 1)), (0, 2, (0, 1, 0, 0))):
            J.append(job(two(na, nb, **traits_mc(*tr)), drv(na, nb, elem=NC, **traits_drv(*tr)), 1, 5000, {'two', 'tracked', 'traits', 'fault', 'mixedN'},
                         'two N=%d,%d traits %d%d%d%d nothrow-copy + nothrow-move (handle-like) element' % ((na, nb) + tr)))
        for N, el, cp, nt in ((2, NT, True, True), (0, NT, True, True), (3, TM, True, False), (0, TM, True, False),
                              (2, MO, False, True), (3, MOT, False, False), (1, CO, True, True)):
            J.append(job(one(N, copyable=cp, nothrow=nt, maxlen=5, maxcnt=3), drv(N, elem=el), 1, None,
                         {'one', 'fault', 'tracked'}, 'one N=%d elem=%d all single faults' % (N, el)))
        J.append(job(one(2, maxlen=4, maxcnt=2), drv(2, elem=TM), 2, 4000, {'one', 'fault', 'fault2', 'tracked'}, 'one N=2 throwing-move, fault pairs'))
        J.append(job(one(2, maxlen=4, maxcnt=2), drv(2, elem=NT, CONSTRUCT=1), 1, None, {'one', 'fault', 'tracked'}, 'one N=2, allocator construct/destroy'))
        J.append(job(one(2, maxlen=4, maxcnt=2), drv(2, elem=NT, san=True), 1, 4000, {'one', 'fault', 'tracked', 'san'}, 'one N=2 under ASan+UBSan'))
        for N in (0, 2, 3):
            J.append(job(one(N, maxlen=5, maxcnt=3), drv(N, elem=TRIV), 0, None, {'one', 'triv'}, 'one N=%d trivially copyable twin' % N))
        J.append(job(one(2, maxlen=5, maxcnt=3), drv(2, elem=INT, ALLOC=0), 0, None, {'one', 'triv', 'stdalloc'}, 'one N=2 int std::allocator'))
        J.append(job(one(2, IsStd=True, maxlen=4), drv(2, elem=NT, ALLOC=0), 1, None, {'one', 'fault', 'tracked', 'stdalloc'}, 'one N=2 std::allocator'))
        for tr in ALL_TRAITS:
            J.append(job(two(2, 2, **traits_mc(*tr)), drv(2, 2, elem=NT, **traits_drv(*tr)), 1, 8000,
                         {'two', 'fault', 'tracked', 'traits'}, 'two N=2,2 traits %d%d%d%d' % tr))
        for (na, nb) in ((0, 2), (2, 0), (3, 2), (2, 3), (0, 0)):
            for tr in (ALL_TRAITS[rot], ALL_TRAITS[(rot + 5) % 16], ALL_TRAITS[(rot + 10) % 16]):
                J.append(job(two(na, nb, **traits_mc(*tr)), drv(na, nb, elem=TM, **traits_drv(*tr)), 1, 5000,
                             {'two', 'fault', 'tracked', 'traits', 'mixedN'}, 'two N=%d,%d traits %d%d%d%d' % ((na, nb) + tr)))
        J.append(job(two(2, 2, IsStd=True, allocids=(0,)), drv(2, 2, elem=NT, ALLOC=0), 1, None, {'two', 'tracked', 'stdalloc', 'fault'}, 'two N=2,2 std::allocator'))
        for el in (MA, MC):
            for (na, nb, tr) in ((2, 2, (0, 1, 0, 0)), (2, 3, (0, 1, 1, 0)), (3, 2, (0, 0, 0, 1)), (2, 2, (0, 0, 1, 1)), (0, 2, (0, 1, 0, 0))):
                J.append(job(two(na, nb, **traits_mc(*tr)), drv(na, nb, elem=el, **traits_drv(*tr)), 1, 6000, {'two', 'tracked', 'traits', 'fault', 'mixedN'},
                             'two N=%d,%d traits %d%d%d%d mixed-noexcept element %d' % ((na, nb) + tr + (el,))))
            J.append(job(two(2, 3, IsStd=True, allocids=(0,)), drv(2, 3, elem=el, ALLOC=0), 1, 6000, {'two', 'tracked', 'fault', 'mixedN', 'stdalloc'}, 'two N=2,3 std::allocator mixed-noexcept element %d' % el))
            J.append(job(one(2, nothrow=False, maxlen=4), drv(2, elem=el), 1, None, {'one', 'tracked', 'fault'}, 'one N=2 mixed-noexcept element %d' % el))
        J.append(job(two(2, 2, copyable=False, **traits_mc(0, 0, 0, 0)), drv(2, 2, elem=MOT), 1, 6000, {'two', 'tracked', 'fault'}, 'two N=2,2 move-only throwing'))
        J.append(job(two(2, 2, SOCCC=1, **traits_mc(1, 0, 1, 0)), drv(2, 2, elem=NT, SOCCC=1, POCCA=1, POCS=1), 0, None, {'two', 'tracked', 'traits'}, 'two N=2,2 marked select_on_container_copy_construction'))
        for (N, M) in ((2, 5), (0, 6), (3, 7)):
            J.append(job(mx(N, M), drv(N, elem=NT, MAXSZ=M), 1, None, {'max', 'tracked', 'fault'}, 'max_size()=%d N=%d' % (M, N)))
            J.append(job(mx(N, M), drv(N, elem=TRIV, MAXSZ=M), 0, None, {'max', 'triv'}, 'max_size()=%d N=%d trivially copyable' % (M, N)))
        for i in range(16):
            tr = ALL_TRAITS[i]
            na, nb = ((2, 2), (0, 2), (3, 2), (2, 3))[i % 4]
            J.append(job(dict(two(na, nb, maxlen=4, maxcap=16, **traits_mc(*tr)), Sim=[150, 100]), drv(na, nb, elem=(TM, NT, MA, MC)[(i // 4) % 4], **traits_drv(*tr)), 1, None,
                         {'two', 'tracked', 'traits', 'fault', 'sim', 'mixedN'}, 'long random behaviours (100 calls), two N=%d,%d traits %d%d%d%d' % ((na, nb) + tr)))
        for N, el, cp, nt in ((2, NT, True, True), (0, TM, True, False), (3, MOT, False, False), (1, CO, True, True), (2, TRIV, True, True)):
            J.append(job(dict(one(N, copyable=cp, nothrow=nt, maxlen=6, maxcnt=3), Sim=[150, 100]), drv(N, elem=el), 1 if el != TRIV else 0, None,
                         {'one', 'tracked' if el != TRIV else 'triv', 'fault', 'sim'}, 'long random behaviours (100 calls), one N=%d elem=%d' % (N, el)))
        for N in (0, 2, 3):
            J.append(job(wide(N, 63), drv(N, elem=TRIV, SIZET=8), 0, None, {'max', 'triv', 'narrow'}, '8-bit size_type, N=%d trivially copyable, boundary arguments' % N))
            J.append(job(wide(N, 63), drv(N, elem=INT, SIZET=8), 0, None, {'max', 'triv', 'narrow'}, '8-bit size_type, N=%d int, boundary arguments' % N))
            J.append(job(wide(N, 21), drv(N, elem=NT, SIZET=8), 1, None, {'max', 'tracked', 'narrow', 'fault'}, '8-bit size_type, N=%d nothrow-move, boundary arguments + faults' % N))
            J.append(job(wide(N, 21), drv(N, elem=TM, SIZET=8), 1, None, {'max', 'tracked', 'narrow', 'fault'}, '8-bit size_type, N=%d throwing-move, boundary arguments + faults' % N))
        for bits in (8, 16, 32):
            J.append(job(one(2, maxlen=4, maxcnt=2), drv(2, elem=TM, SIZET=bits), 1, None, {'one', 'tracked', 'narrow', 'fault'}, '%d-bit size_type, N=2, all single faults' % bits))
            J.append(job(two(2, 2, **traits_mc(0, 0, 0, 0)), drv(2, 2, elem=NT, SIZET=bits), 0, 6000, {'two', 'tracked', 'narrow'}, '%d-bit size_type, two containers' % bits))
        for i, tr in enumerate(ALL_TRAITS):
            for (na, nb) in ((2, 3), (3, 2)):
                J.append(job(two(na, nb, **traits_mc(*tr)), drv(na, nb, elem=NT if i % 2 else TM, **traits_drv(*tr)), 1, 4000,
                             {'two', 'fault', 'tracked', 'traits', 'mixedN'}, 'two N=%d,%d traits %d%d%d%d (all 16 between different inline capacities)' % ((na, nb) + tr)))
        for tr in ((0, 0, 0, 0), (0, 0, 1, 0), (0, 0, 0, 1), (1, 1, 1, 0)):
            J.append(job(two(2, 2, **traits_mc(*tr)), drv(2, 2, elem=SW, **traits_drv(*tr)), 1, 6000, {'two', 'tracked', 'traits', 'fault'}, 'two N=2,2 element with a throwing ADL swap, traits %d%d%d%d' % tr))
        for N in (0, 2, 3):
            for al in (0, 1):
                J.append(job(one(N, maxlen=5, maxcnt=3), drv(N, elem=PM, ALLOC=al), 0, None, {'one', 'triv'} | ({'stdalloc'} if al == 0 else set()),
                             'one N=%d trivial element holding a pointer to member, %s' % (N, 'std::allocator' if al == 0 else 'ledger allocator')))
        for i, tr in enumerate(ALL_TRAITS):
            na, nb = ((2, 2), (0, 2), (3, 2), (2, 3))[i % 4]
            J.append(job(two(na, nb, **traits_mc(*tr)), drv(na, nb, elem=(TRIV, INT)[i % 2], **traits_drv(*tr)), 0, 6000,
                         {'two', 'triv', 'traits', 'mixedN'}, 'two N=%d,%d trivially copyable, traits %d%d%d%d' % ((na, nb) + tr)))
        J.append(job(two(3, 2, IsStd=True, allocids=(0,)), drv(3, 2, elem=INT, ALLOC=0), 0, None, {'two', 'triv', 'stdalloc', 'mixedN'}, 'two N=3,2 int, std::allocator'))
        for (na, nb, std) in ((2, 0, 'c++11'), (0, 3, 'c++14'), (3, 1, 'c++17')):
            J.append(job(order(3, alphabet=(0, 1, 2, 3), flt=True), drv(na, nb, elem=FLT, std=std), 0, None, {'order', 'triv'},
                         'order: double with -0.0 / NaN / 1.0, all pairs len<=3, N=%d,%d %s (mixed capacities, pre-C++20 operators)' % (na, nb, std)))
        for N, el, cp, nt in ((2, NT, True, True), (0, TM, True, False), (3, MOT, False, False), (2, TRIV, True, True), (0, INT, True, True)):
            J.append(job(one(N, copyable=cp, nothrow=nt, maxlen=4, maxcnt=2), drv(N, elem=el, ALLOC=2), 1 if el not in (TRIV, INT) else 0, None,
                         {'one', 'fault', 'tracked'} if el not in (TRIV, INT) else {'one', 'triv'}, 'one N=%d elem=%d fancy pointers' % (N, el)))
        for i, tr in enumerate(ALL_TRAITS):
            na, nb = ((2, 2), (0, 2), (3, 2), (2, 3))[i % 4]
            J.append(job(two(na, nb, **traits_mc(*tr)), drv(na, nb, elem=(TM, NT)[i % 2], ALLOC=2, std=('c++11', 'c++17', 'c++20')[i % 3], **traits_drv(*tr)), 1, 3000,
                         {'two', 'fault', 'tracked', 'traits', 'mixedN'}, 'two N=%d,%d fancy pointers traits %d%d%d%d' % ((na, nb) + tr)))
        for (na, nb) in ((0, 0), (1, 3), (2, 2)):
            for (std, cxx, al) in (('c++11', 'g++', 1), ('c++17', 'g++', 0), ('c++20', 'g++', 1), ('c++23', 'g++', 1), ('c++14', 'clang++', 1), ('c++20', 'clang++', 0)):
                J.append(job(order(3, alphabet=(0, 1, 2, 3), flt=True), drv(na, nb, elem=FLT, ALLOC=al, std=std, cxx=cxx), 0, None, {'order', 'triv'},
                             'order: double with -0.0 / NaN / 1.0, all pairs len<=3, N=%d,%d %s %s' % (na, nb, std, cxx)))
        for N in (0, 2, 3):
            for el in (TRIV, INT):
                J.append(job(one(N, maxlen=5, maxcnt=3), drv(N, elem=el, CONSTRUCT=2), 0, None, {'one', 'triv'}, 'one N=%d elem=%d construct-only allocator marking value-construction' % (N, el)))
            J.append(job(one(N, maxlen=4, maxcnt=2), drv(N, elem=NT, CONSTRUCT=2), 1, None, {'one', 'fault', 'tracked'}, 'one N=%d nothrow-move, construct-only allocator' % N))
            J.append(job(one(N, nothrow=False, maxlen=4, maxcnt=2), drv(N, elem=TM, CONSTRUCT=3), 1, None, {'one', 'fault', 'tracked'}, 'one N=%d throwing-move, destroy-only allocator' % N))
        for (na, nb) in ((0, 0), (1, 3), (3, 1), (2, 2), (0, 3)):
            for (el, ss, std, cxx) in ((NT, 0, 'c++17', 'g++'), (TRIV, 1, 'c++20', 'g++'), (NT, 0, 'c++20', 'g++'), (INT, 0, 'c++11', 'g++'),
                                       (TRIV, 1, 'c++20', 'clang++'), (NT, 0, 'c++14', 'clang++')):
                J.append(job(order(4), drv(na, nb, elem=el, SPACESHIP=ss, std=std, cxx=cxx), 0, None, {'order'},
                             'order: all pairs len<=4, N=%d,%d elem=%d %s %s' % (na, nb, el, std, cxx)))
    return J


# which job tags feed which property (a property looks at every job having at least one of its tags)
PROP_TAGS = {
    'C01': {'one', 'two', 'max'},
    'C02': {'one', 'two', 'max'},
    'C03': {'tracked'},
    'C04': {'one', 'two', 'max'},
    'C05': {'fault'},
    'C06': {'fault'},
    'C07': {'two', 'traits'},
    'C09': {'two'},
    'C10': {'one', 'two'},
    'C11': {'one'},
    'C12': {'max'},
    'C14': {'one', 'max'},
    'C13': {'triv'},
    'C15': {'one'},
    'C16': {'order', 'two'},
    'C18': {'fault'},
}
