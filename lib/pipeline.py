"""Pipeline: TLC model-checks the L1 spec and emits stimuli -> the C++ driver replays them on the real
header and records a trace -> TLC validates the trace against the L1 contract + L0 machine.

Everything is cached under /verif/.cache by content hash (header, driver, specs, parameters), so the
first check on a given tree pays and the others reuse.  Nothing here decides a property: verdicts are
the <<"V", ...>> lines TLC prints while validating traces."""
import hashlib
import json
import os
import threading
import re
import subprocess
import sys
import time
import fcntl
import shutil

sys.path.insert(0, os.path.dirname(os.path.abspath(__file__)))
import tlaparse  # noqa: E402

ROOT = os.path.dirname(os.path.dirname(os.path.abspath(__file__)))
CACHE = os.path.join(ROOT, '.cache')
SPEC = os.path.join(ROOT, 'spec')
HARNESS = os.path.join(ROOT, 'harness')
REPO = os.environ.get('REPO_ROOT', '/repo')
HEADER = os.path.join(REPO, 'source', 'include', 'gch', 'small_vector.hpp')
TLA_CP = '/opt/veriftools/tla/tla2tools.jar:/opt/veriftools/tla/CommunityModules-deps.jar'
NCPU = os.cpu_count() or 4


def sha(*parts):
    h = hashlib.sha256()
    for p in parts:
        if isinstance(p, bytes):
            h.update(p)
        else:
            h.update(str(p).encode())
        h.update(b'\0')
    return h.hexdigest()[:20]


def file_sha(path):
    with open(path, 'rb') as f:
        return hashlib.sha256(f.read()).hexdigest()[:20]


def spec_sha():
    parts = []
    for n in sorted(os.listdir(SPEC)):
        if n.endswith('.tla'):
            parts.append(n)
            parts.append(file_sha(os.path.join(SPEC, n)))
    return sha(*parts)


def header_sha():
    return file_sha(HEADER)


class Lock:
    """Per-artefact lock so that concurrently started checks do not build the same thing twice."""

    def __init__(self, path):
        self.path = path + '.lock'

    def __enter__(self):
        os.makedirs(os.path.dirname(self.path), exist_ok=True)
        self.f = open(self.path, 'w')
        fcntl.flock(self.f, fcntl.LOCK_EX)
        return self

    def __exit__(self, *a):
        fcntl.flock(self.f, fcntl.LOCK_UN)
        self.f.close()


def java_tlc(args, env=None, timeout=1800, xmx='3g', cwd=None):
    cmd = ['java', '-XX:+UseSerialGC', '-Xss16m', '-Xmx' + xmx, '-cp', TLA_CP, 'tlc2.TLC', '-noGenerateSpecTE'] + args
    e = dict(os.environ)
    if env:
        e.update(env)
    p = subprocess.run(cmd, stdout=subprocess.PIPE, stderr=subprocess.STDOUT, env=e, timeout=timeout, cwd=cwd)
    return p.returncode, p.stdout.decode('utf-8', 'replace')


def java_tlc_to_file(args, outpath, env=None, timeout=1800, xmx='3g', cwd=None):
    """TLC with its output in a file (the stimulus-emitting instances print hundreds of megabytes); returns
    (return code, the last 64 KB of the output)."""
    cmd = ['java', '-XX:+UseSerialGC', '-Xss16m', '-Xmx' + xmx, '-cp', TLA_CP, 'tlc2.TLC', '-noGenerateSpecTE'] + args
    e = dict(os.environ)
    if env:
        e.update(env)
    with open(outpath, 'wb') as f:
        p = subprocess.run(cmd, stdout=f, stderr=subprocess.STDOUT, env=e, timeout=timeout, cwd=cwd)
    with open(outpath, 'rb') as f:
        f.seek(0, 2)
        n = f.tell()
        f.seek(max(0, n - 65536))
        tail = f.read().decode('utf-8', 'replace')
    return p.returncode, tail


# ----------------------------------------------------------------------------------------------
# 1. stimuli from TLC
# ----------------------------------------------------------------------------------------------
MC_DEFAULTS = dict(NA=2, NB=2, Profile='one', MaxLen=4, MaxCnt=2, MaxCap=16, MaxSize=1000,
                   IsStd=False, POCCA=False, POCMA=False, POCS=False, AE=False, SOCCC=0,
                   Copyable=True, NothrowMove=True, AllocIds=[0], Kinds=[0, 1, 3, 4], Pairs=False, PrintFrom=0)


def tla_const(v):
    if isinstance(v, bool):
        return 'TRUE' if v else 'FALSE'
    if isinstance(v, str):
        return '"%s"' % v
    if isinstance(v, (list, tuple, set)):
        return '{' + ', '.join(tla_const(x) for x in sorted(v)) + '}'
    return str(v)


def mc_cfg_text(consts):
    lines = ['SPECIFICATION Spec', 'CONSTANTS']
    for k in sorted(consts):
        lines.append('  %s = %s' % (k, tla_const(consts[k])))
    lines += ['VIEW View', 'CONSTRAINT Bound', 'INVARIANT InvStorage', 'INVARIANT InvNeverBigNeverAllocates',
              'CHECK_DEADLOCK FALSE']
    return '\n'.join(lines) + '\n'


def fmt_op(op):
    return ' '.join([op[0], op[1], op[2]] + [str(x) for x in op[3]])


_gen_pool = None
_gen_pool_lock = threading.Lock()


def _tlc_stimuli(module, cfgtext, descr):
    """Run TLC on one instance and turn its <<"S", history, call, outcome>> lines into a stimulus file (cached).  The work is
    done in a worker PROCESS: parsing hundreds of megabytes of TLC output is pure Python and must not hold the interpreter
    lock of the process that runs all the jobs."""
    global _gen_pool
    key = sha('stim', spec_sha(), module, cfgtext)
    meta = os.path.join(CACHE, 'stim', key, 'meta.json')
    if os.path.exists(meta):
        try:
            return json.load(open(meta))
        except Exception:      # being written by another process: fall through to the locked path
            pass
    with _gen_pool_lock:
        if _gen_pool is None:
            import concurrent.futures
            import multiprocessing
            _gen_pool = concurrent.futures.ProcessPoolExecutor(max_workers=max(2, min(8, NCPU // 2)), mp_context=multiprocessing.get_context('spawn'))
    return _gen_pool.submit(_tlc_stimuli_impl, module, cfgtext, descr).result()


def _tlc_stimuli_impl(module, cfgtext, descr):
    key = sha('stim', spec_sha(), module, cfgtext)
    d = os.path.join(CACHE, 'stim', key)
    meta = os.path.join(d, 'meta.json')
    with Lock(d):
        if os.path.exists(meta):
            return json.load(open(meta))
        os.makedirs(d, exist_ok=True)
        cfgp = os.path.join(d, 'MC.cfg')
        open(cfgp, 'w').write(cfgtext)
        t0 = time.time()
        outp = os.path.join(d, 'tlc.out')
        rc, out = java_tlc_to_file(['-workers', '1', '-metadir', os.path.join(d, 'md'), '-config', cfgp,
                                    os.path.join(SPEC, module + '.tla')], outp, timeout=7200, xmx='6g')
        shutil.rmtree(os.path.join(d, 'md'), ignore_errors=True)
        ok = 'Model checking completed. No error has been found.' in out
        ms = re.findall(r'(\d+) states generated, (\d+) distinct states found', out)
        m = ms[-1] if ms else None
        if not ok or not m:
            raise RuntimeError('TLC failed on %s %s (see %s):\n%s' % (module, descr, outp, out[-3000:]))
        stim = os.path.join(d, 'stimuli.txt')
        n = 0
        seen = set()
        with open(stim, 'w') as f, open(outp, errors='replace') as fin:
            for v in tlaparse.values_stream(fin, 'S'):
                ops = v[1] + [v[2]]
                body = ' ; '.join(fmt_op(o) for o in ops)
                hb = hash(body)
                if hb in seen:
                    continue
                seen.add(hb)
                f.write('S m%d 0 | %s\n' % (n, body))
                n += 1
        os.remove(outp)
        res = dict(path=stim, generated=max(int(m[0]), n), distinct=int(m[1]), n=n, wall=time.time() - t0,
                   consts=descr, key=key)
        json.dump(res, open(meta, 'w'))
        return res


def gen_stimuli_sim(consts, num, depth, seed):
    """Long random behaviours of an MC instance (tlc -simulate): one stimulus per behaviour = its whole call history.
    They exist to catch behaviour that depends on state the shape abstraction does not contain.  (Worker process, as above.)"""
    global _gen_pool
    with _gen_pool_lock:
        if _gen_pool is None:
            import concurrent.futures
            import multiprocessing
            _gen_pool = concurrent.futures.ProcessPoolExecutor(max_workers=max(2, min(8, NCPU // 2)), mp_context=multiprocessing.get_context('spawn'))
    return _gen_pool.submit(_gen_stimuli_sim_impl, consts, num, depth, seed).result()


def _gen_stimuli_sim_impl(consts, num, depth, seed, print_from=None):
    c = dict(MC_DEFAULTS)
    c.update(consts)
    # TLC evaluates (and would print) every enabled call at every step; only the calls enabled at the END of a behaviour become
    # stimuli, so printing starts two steps before the end (100 times less output to write and parse)
    c['PrintFrom'] = max(0, depth - 3) if print_from is None else print_from
    cfgtext = mc_cfg_text(c)
    key = sha('sim', spec_sha(), cfgtext, num, depth, seed)
    d = os.path.join(CACHE, 'stim', key)
    meta = os.path.join(d, 'meta.json')
    with Lock(d):
        if os.path.exists(meta):
            return json.load(open(meta))
        os.makedirs(d, exist_ok=True)
        cfgp = os.path.join(d, 'MC.cfg')
        open(cfgp, 'w').write(cfgtext)
        t0 = time.time()
        outp = os.path.join(d, 'tlc.out')
        rc, out = java_tlc_to_file(['-simulate', 'num=%d' % num, '-depth', str(depth), '-seed', str(seed + 1), '-workers', '1', '-metadir', os.path.join(d, 'md'),
                                    '-config', cfgp, os.path.join(SPEC, 'SVecMC.tla')], outp, timeout=3600, xmx='4g')
        shutil.rmtree(os.path.join(d, 'md'), ignore_errors=True)
        if 'violates the contract' in out or 'Invariant' in out and 'is violated' in out or 'evaluated to FALSE' in out:
            raise RuntimeError('TLC simulation found a design-level violation (see %s):\n%s' % (outp, out[-2500:]))
        # TLC evaluates every enabled call at every step of a behaviour and then follows one of them: the "S" lines
        # whose history has the maximal length are the candidates for the LAST step of each behaviour
        byhist = {}
        maxlen = 0
        fin = open(outp, errors='replace')
        for v in tlaparse.values_stream(fin, 'S'):
            n = len(v[1])
            if n < maxlen:
                continue
            if n > maxlen:
                maxlen, byhist = n, {}
            byhist.setdefault(' ; '.join(fmt_op(o) for o in v[1]), []).append(fmt_op(v[2]))
        fin.close()
        os.remove(outp)
        if not byhist and c['PrintFrom'] > 0:
            return _gen_stimuli_sim_impl(consts, num, depth, seed, print_from=0)      # behaviours ended early: print everything
        rnd = __import__('random').Random(seed)
        bodies = []
        for h in sorted(byhist):
            for last in rnd.sample(sorted(set(byhist[h])), min(3, len(set(byhist[h])))):
                bodies.append(h + ' ; ' + last)
        best = {b: maxlen + 1 for b in bodies}
        stim = os.path.join(d, 'stimuli.txt')
        with open(stim, 'w') as f:
            for n, body in enumerate(bodies):
                f.write('S z%d 0 | %s\n' % (n, body))
        res = dict(path=stim, generated=sum(best.values()), distinct=len(bodies), n=len(bodies), wall=time.time() - t0, consts=dict(c, sim=[num, depth, seed]), key=key)
        json.dump(res, open(meta, 'w'))
        return res


def gen_stimuli(consts):
    """Model-check one MC instance of SVecMC (or SVecOrder when consts has 'Order'); returns
    dict(path=stimuli file, generated, distinct, n).  Stimulus line: 'S <id> <fmode> | op ; op ; ...'."""
    if 'Order' in consts:
        cfg = 'SPECIFICATION Spec\nCONSTANTS\n  Alphabet = %s\n  MaxLen = %d\n  Flt = %s\nCHECK_DEADLOCK FALSE\n' % (
            tla_const(consts['Alphabet']), consts['MaxLen'], 'TRUE' if consts.get('Flt') else 'FALSE')
        return _tlc_stimuli('SVecOrder', cfg, consts)
    c = dict(MC_DEFAULTS)
    c.update(consts)
    return _tlc_stimuli('SVecMC', mc_cfg_text(c), c)


# ----------------------------------------------------------------------------------------------
# 2. driver build
# ----------------------------------------------------------------------------------------------
DRV_DEFAULTS = dict(NA=2, NB=2, ELEM=0, ALLOC=1, POCCA=0, POCMA=0, POCS=0, AE=0, CONSTRUCT=0, SIZET=64,
                    MAXSZ=0, SOCCC=0, VECTOR=0, SPACESHIP=0, GDB=0, std='c++17', cxx='g++', san=False, opt='-O1')

ELEM_NAMES = ['NT', 'TM', 'MO', 'MOT', 'CO', 'TRIV', 'INT', 'MA', 'MC', 'FLT', 'SW', 'PM', 'NC']


def drv_name(c):
    s = 'N%d.%d-%s-%s' % (c['NA'], c['NB'], ELEM_NAMES[c['ELEM']], ('std', 'led', 'fancy')[c['ALLOC']])
    if c['ALLOC']:
        s += '-ca%dma%ds%dae%d' % (c['POCCA'], c['POCMA'], c['POCS'], c['AE'])
    if c['CONSTRUCT']:
        s += {1: '-ctor', 2: '-ctoronly', 3: '-dtoronly'}[c['CONSTRUCT']]
    if c['SIZET'] != 64:
        s += '-u%d' % c['SIZET']
    if c['MAXSZ']:
        s += '-max%d' % c['MAXSZ']
    if c['SOCCC']:
        s += '-soccc'
    if c['VECTOR']:
        s += '-stdvector'
    if c.get('SPACESHIP'):
        s += '-3way'
    if c.get('GDB'):
        s += '-gdb'
    s += '-' + c['cxx'] + '-' + c['std'].replace('+', 'p')
    if c.get('defs'):
        s += '-' + '-'.join(c['defs'])
    if c['san']:
        s += '-san'
    return s


def build_driver(conf):
    c = dict(DRV_DEFAULTS)
    c.update(conf)
    name = drv_name(c)
    src = os.path.join(HARNESS, 'driver.cpp')
    key = sha('drv', header_sha(), file_sha(src), json.dumps(c, sort_keys=True))
    d = os.path.join(CACHE, 'build', key)
    exe = os.path.join(d, 'drv')
    with Lock(d):
        if os.path.exists(exe):
            return dict(exe=exe, name=name, conf=c, key=key)
        os.makedirs(d, exist_ok=True)
        flags = ['-std=' + c['std'], c['opt'], '-DNDEBUG', '-w', '-I', os.path.join(REPO, 'source', 'include')]
        for k in ('NA', 'NB', 'ELEM', 'ALLOC', 'POCCA', 'POCMA', 'POCS', 'AE', 'CONSTRUCT', 'SIZET', 'MAXSZ', 'SOCCC', 'VECTOR', 'SPACESHIP', 'GDB'):
            flags.append('-DCFG_%s=%s' % (k, c[k]))
        flags.append('-DCFG_NAME="%s"' % name)
        for dname in c.get('defs', []):
            flags.append('-D' + dname)
        if c.get('GDB'):
            flags += ['-g', '-O0', '-fno-eliminate-unused-debug-symbols']
        if c['san']:
            flags += ['-fsanitize=address,undefined', '-fno-sanitize-recover=undefined', '-g', '-fno-omit-frame-pointer']
        p = subprocess.run([c['cxx']] + flags + ['-o', exe + '.tmp', src], stdout=subprocess.PIPE, stderr=subprocess.STDOUT)
        if p.returncode != 0:
            open(os.path.join(d, 'build.log'), 'wb').write(p.stdout)
            raise RuntimeError('driver build failed for %s:\n%s' % (name, p.stdout.decode()[-4000:]))
        os.rename(exe + '.tmp', exe)
        return dict(exe=exe, name=name, conf=c, key=key)


# ----------------------------------------------------------------------------------------------
# 3. run the driver (restarting after fatal outcomes)
# ----------------------------------------------------------------------------------------------
def run_driver(exe, stimfile, tracefile, san=False):
    env = dict(os.environ)
    if san:
        env['ASAN_OPTIONS'] = 'abort_on_error=1:detect_leaks=0:handle_abort=0:allocator_may_return_null=1'
        env['UBSAN_OPTIONS'] = 'halt_on_error=1:abort_on_error=1:print_stacktrace=0'
    start, k = 0, 0
    restarts = 0
    with open(tracefile, 'wb') as out:
        while True:
            p = subprocess.run([exe, stimfile, str(start), str(k)], stdout=subprocess.PIPE, stderr=subprocess.PIPE, env=env)
            data = p.stdout
            out.write(data)
            if p.returncode == 0:
                break
            # find the last stimulus marker to know where to resume
            idx = data.rfind(b'{"t":"stim"')
            if idx < 0 or restarts > 20000:
                raise RuntimeError('driver died without progress (rc=%s): %s' % (p.returncode, p.stderr.decode()[-2000:]))
            line = data[idx:data.find(b'\n', idx)]
            m = json.loads(line)
            if not data.endswith(b'\n'):
                out.write(b'\n')
            if p.returncode != 3:
                # died without writing a fatal line (e.g. sanitizer abort): write one so the spec sees a crash
                out.write(json.dumps({"t": "op", "id": m["id"], "i": -1, "op": "unknown", "c": "A", "s": "-", "a": [],
                                      "k": [m["k"], m.get("k2", 0)], "out": "crash"}).encode() + b'\n')
            start, k = m['n'], m['k'] + 1
            restarts += 1
    return restarts


# ----------------------------------------------------------------------------------------------
# 4. validate a trace with TLC
# ----------------------------------------------------------------------------------------------
PROPS = ['C%02d' % i for i in range(1, 21)]


LAST_NAMES = set()


def validate_trace(tracefile, workdir, tag):
    md = os.path.join(workdir, 'md_' + tag)
    rc, out = java_tlc(['-workers', '1', '-metadir', md, '-config', os.path.join(SPEC, 'Trace.cfg'),
                        os.path.join(SPEC, 'Trace.tla')], env={'TRACE': tracefile}, timeout=3600, xmx='4g')
    shutil.rmtree(md, ignore_errors=True)
    global LAST_NAMES
    viol, hits, end = [], {}, None
    LAST_NAMES = set()
    for v in tlaparse.values(out):
        if not v:
            continue
        if v[0] == 'NAMES':
            LAST_NAMES = set('%s|%s' % (t[0], t[1]) for t in v[1])      # conjuncts whose antecedent held somewhere in this trace
        elif v[0] == 'V':
            viol.append((v[1], v[2], v[3]))
        elif v[0] == 'H':
            hits[v[1]] = v[2]
        elif v[0] == 'END':
            end = v[1]
    if 'Model checking completed. No error has been found.' not in out or end is None:
        open(os.path.join(workdir, 'tlc_%s.out' % tag), 'w').write(out)
        raise RuntimeError('TLC trace validation failed (%s): see %s\n%s' % (tracefile, workdir, out[-3000:]))
    return viol, hits, end


def validate_impl(tracefile, workdir, tag):
    """L2 conformance: compare every recorded call of a modelled routine with the line predicted by spec/SVecImpl.tla.
    Returns (calls compared, [drift records])."""
    md = os.path.join(workdir, 'md_' + tag)
    rc, out = java_tlc(['-workers', '1', '-metadir', md, '-config', os.path.join(SPEC, 'Trace.cfg'),
                        os.path.join(SPEC, 'ImplTrace.tla')], env={'TRACE': tracefile}, timeout=3600, xmx='6g')
    shutil.rmtree(md, ignore_errors=True)
    calls, drift, end = 0, [], None
    for v in tlaparse.values(out):
        if not v:
            continue
        if v[0] == 'H':
            calls += 1
        elif v[0] == 'D':
            drift.append(dict(line=v[1], op=v[2], what=sorted(v[3])))
        elif v[0] == 'END':
            end = v[1]
    if 'Model checking completed. No error has been found.' not in out or end is None:
        open(os.path.join(workdir, 'tlc_%s.out' % tag), 'w').write(out)
        raise RuntimeError('TLC L2 conformance failed (%s): see %s\n%s' % (tracefile, workdir, out[-3000:]))
    if drift:
        lines = open(tracefile).read().split('\n')
        for d in drift[:20]:
            d['recorded'] = lines[d['line'] - 1][:700]
    return calls, drift


def shape(st):
    def one(x):
        if not x.get('p'):
            return '-'
        return '%d/%d/%s' % (x['sz'], x['cap'], 'h' if x['st'] > 0 else 'i')
    return one(st['A']) + ',' + one(st['B'])


EMPTY = {'A': {'p': False}, 'B': {'p': False}}


def analyse(tracefile, viol, hits, cfgname):
    """Join TLC's per-line verdicts with the trace lines.  Returns per-property distinct signatures of
    exercised lines, and violation records carrying everything needed to replay."""
    by_line = {}
    for (l, p, n) in viol:
        by_line.setdefault(l, []).append((p, n))
    sigs = {p: set() for p in PROPS}
    nlines = {p: 0 for p in PROPS}
    violations = []
    ops = 0
    cur = EMPTY
    stim = None
    with open(tracefile) as f:
        for i, line in enumerate(f, 1):
            if i not in hits and i not in by_line and '"t":"op"' not in line and '"t":"snap"' not in line \
               and '"t":"reset"' not in line and '"t":"stim"' not in line and '"t":"fatal"' not in line:
                continue
            ln = json.loads(line)
            t = ln['t']
            if t == 'stim':
                stim = ln
                continue
            if t == 'reset':
                cur = EMPTY
                continue
            if t == 'snap':
                cur = ln['post']
                continue
            if t == 'fatal':
                for (p, n) in by_line.get(i, []):
                    violations.append(dict(property=p, check=n, line=i, op='(between calls)', out=ln.get('out'), k=[stim.get('k') if stim else 0, 0],
                                           fk=None, a=None, c=None, s=None, cfg=cfgname, stim=stim, pre=shape(cur), sig='fatal', id=stim.get('id') if stim else None, i=-1))
                continue
            if t != 'op':
                continue
            ops += 1
            sig = '%s|%s|%s|%s|%s|k%s|fk%s|%s' % (cfgname, ln['op'], ln.get('c'), shape(cur), ln.get('a'), ln.get('k'),
                                                  ln.get('fk'), ln.get('out'))
            for p in hits.get(i, []):
                if p in sigs:
                    sigs[p].add(sig)
                    nlines[p] += 1
            for (p, n) in by_line.get(i, []):
                violations.append(dict(property=p, check=n, line=i, op=ln['op'], out=ln.get('out'), k=ln.get('k'),
                                       fk=ln.get('fk'), a=ln.get('a'), c=ln.get('c'), s=ln.get('s'), cfg=cfgname,
                                       stim=stim, pre=shape(cur), sig=sig, id=ln.get('id'), i=ln.get('i')))
            cur = ln.get('post', EMPTY)
    return sigs, nlines, violations, ops
