------------------------------- MODULE SVecMC -------------------------------
(***************************************************************************)
(* Model-checking instances of the L1 contract.                            *)
(*                                                                         *)
(* The state is the abstract state of two container slots A, B and the     *)
(* allocator ledger, in exactly the record format the trace spec uses.     *)
(* Next-state = for every enabled public call, the post-state PREDICTED by *)
(* the shape-level policy of today's implementation (growth 2x, the        *)
(* dispatch of move / swap / assignment on allocator traits, ...).  For    *)
(* every transition TLC                                                    *)
(*   (1) asserts that the predicted call satisfies the whole L1 contract   *)
(*       (policy inside contract: the design admits no bad state),         *)
(*   (2) checks the storage / ledger invariants and the derived theorem    *)
(*       "never big => never allocated" as INVARIANTs,                     *)
(*   (3) prints the transition together with the shortest call history     *)
(*       that reaches its source state -- one implementation test per      *)
(*       explored transition (the history variable is hidden by the VIEW). *)
(* Element values are canonical (1..len): the container is value-agnostic; *)
(* the driver substitutes distinct fresh values when it replays.           *)
(***************************************************************************)
EXTENDS SVecImpl

CONSTANTS NA, NB,            \* inline capacities of the slots
          Profile,           \* "one": all unary calls on A | "two": binary calls + movers | "max": near max_size
          MaxLen, MaxCnt,    \* bounds: resulting size, count / range length arguments
          MaxCap,            \* bound on capacity (state constraint)
          MaxSize,           \* max_size() of the allocator
          IsStd, POCCA, POCMA, POCS, AE, SOCCC,    \* allocator traits
          Copyable, NothrowMove,                    \* element flavour
          AllocIds,          \* allocator ids handed to constructors ({0}: default only)
          Pairs,             \* impl profiles: also explore every PAIR of throw points (second fault inside roll-back code)
          PrintFrom,         \* stimuli are printed only for transitions taken after at least this many calls (0: all; simulation
                             \* runs set it to the behaviour length, where only the last calls are turned into stimuli)
          Kinds              \* range kinds to use (0 input 1 fwd 2 bidir 3 random 4 ptr 5 move_iterator 6 container iterators 7 fwd / 8 input over construct-only sources)

VARIABLES st, hist, everBig, allocCount

cfg == [na |-> NA, nb |-> NB, isStd |-> IsStd, pocca |-> POCCA, pocma |-> POCMA, pocs |-> POCS, ae |-> AE,
        soccc |-> SOCCC, max |-> MaxSize, copyable |-> Copyable, nothrowMove |-> NothrowMove,
        nothrowMoveCtor |-> NothrowMove, nothrowMoveAssign |-> NothrowMove, hasMove |-> TRUE, construct |-> FALSE,
        tracked |-> (Profile \in {"impl", "impl2"}), vector |-> FALSE, flt |-> FALSE, defval |-> 0, adlswap |-> FALSE]

Absent == [p |-> FALSE]

\* a quiescent container record with all probe fields derived
Mk(c, e, cap, stv, al) ==
  LET n == NOf(cfg, c) IN
  [p |-> TRUE, e |-> e, sz |-> Len(e), cap |-> cap, st |-> stv, al |-> al,
   inl |-> (stv = 0), inlb |-> (Len(e) <= n), max |-> MaxSize, icap |-> n, ok |-> TRUE, nm |-> TRUE]

Canon(len) == [i \in 1..len |-> <<i, 0>>]

BlockIds(blocks) == {blocks[j][1] : j \in 1..Len(blocks)}
FreshId(blocks)  == CHOOSE i \in 1..(Len(blocks) + 1) : i \notin BlockIds(blocks)
DropBlock(blocks, id) == SelectSeq(blocks, LAMBDA b : b[1] # id)

\* ---- growth policy of the implementation (2x, saturating) -- inside GrowOK
GrowChoice(cap, req) == IF MaxSize - cap <= cap THEN MaxSize ELSE Max(2 * cap, req)
RECURSIVE PushGrow(_, _, _)
PushGrow(cap, sz, n) == IF n = 0 THEN cap
                        ELSE PushGrow(IF sz = cap THEN GrowChoice(cap, sz + 1) ELSE cap, sz + 1, n - 1)

(***************************************************************************)
(* Re-seat container c on a buffer of capacity newcap holding `vals`.      *)
(* Returns [x |-> record, blocks |-> ledger, evs |-> alloc/dealloc events] *)
(* alNew: allocator owning a new block; the old block goes back through    *)
(* the old allocator.                                                      *)
(***************************************************************************)
Reseat(c, x, blocks, vals, newcap, alNew, alAfter) ==
  LET n == NOf(cfg, c) IN
  IF newcap = x.cap /\ ~(Heap(x) /\ alNew # x.al /\ ~AllocEq(cfg, alNew, x.al)) THEN
    [x |-> Mk(c, El(vals), x.cap, x.st, alAfter), blocks |-> blocks, evs |-> <<>>]
  ELSE
    LET b1  == IF Heap(x) THEN DropBlock(blocks, x.st) ELSE blocks
        dev == IF Heap(x) THEN << <<5, 10 + x.st, x.cap, x.al, 1, 0>> >> ELSE <<>>
    IN
    IF newcap = n THEN
      [x |-> Mk(c, El(vals), n, 0, alAfter), blocks |-> b1, evs |-> dev]
    ELSE
      LET id == FreshId(blocks) IN
      [x |-> Mk(c, El(vals), newcap, id, alAfter),
       blocks |-> Append(b1, <<id, newcap, alNew>>),
       evs |-> << <<4, 10 + id, newcap, alNew, 0, 0>> >> \o dev]

Line(op, c, s, a, v, out, ret, ret2, evs, post) ==
  [t |-> "op", op |-> op, c |-> c, s |-> s, a |-> a, v |-> v, out |-> out, ret |-> ret, ret2 |-> ret2,
   k |-> <<0, 0>>, fk |-> <<0, 0>>, evs |-> evs, evtrunc |-> FALSE,
   post |-> [A |-> post.A, B |-> post.B], blocks |-> post.blocks, can |-> TRUE]

With(s0, c, r) == [s0 EXCEPT ![c] = r.x, !.blocks = r.blocks]

Fresh(n) == [i \in 1..n |-> 100 + i]

(***************************************************************************)
(* Policy of a mutating unary call: contents become `want`, capacity       *)
(* becomes newcap(req) when req exceeds the capacity.                      *)
(***************************************************************************)
Mutate(op, c, a, v, want, req, newcap, ret, ret2) ==
  LET x == st[c] IN
  IF req > MaxSize THEN Line(op, c, "-", a, v, "length_error", -1, -1, <<>>, st)
  ELSE LET r == Reseat(c, x, st.blocks, want, IF req <= x.cap THEN x.cap ELSE newcap, x.al, x.al)
       IN  Line(op, c, "-", a, v, "ok", ret, ret2, r.evs, With(st, c, r))

Grow(x, req) == GrowChoice(x.cap, req)
AVal(x, alias, v) == IF alias >= 0 THEN Vals(x)[alias + 1] ELSE v[1]

PredictUnary(o) ==
  LET c  == o.c
      x  == st[c]
      sz == Len(x.e)
      vs == Vals(x)
      a  == o.a
      op == o.op
      f1 == Fresh(1)
  IN
  CASE op = "push_back"      -> Mutate(op, c, a, IF a[1] < 0 THEN f1 ELSE <<>>, Append(vs, AVal(x, a[1], f1)), sz + 1, Grow(x, sz + 1), -1, -1)
    [] op = "push_back_m"    -> Mutate(op, c, a, f1, Append(vs, f1[1]), sz + 1, Grow(x, sz + 1), -1, -1)
    [] op = "emplace_back_c" -> Mutate(op, c, a, IF a[1] < 0 THEN f1 ELSE <<>>, Append(vs, AVal(x, a[1], f1)), sz + 1, Grow(x, sz + 1), sz, -1)
    [] op = "emplace_back_v" -> Mutate(op, c, a, f1, Append(vs, f1[1]), sz + 1, Grow(x, sz + 1), sz, -1)
    [] op \in {"insert", "emplace_c"} ->
         Mutate(op, c, a, IF a[2] < 0 THEN f1 ELSE <<>>, InsertAt(vs, a[1], <<AVal(x, a[2], f1)>>), sz + 1, Grow(x, sz + 1), a[1], -1)
    [] op \in {"insert_m", "emplace_v"} ->
         Mutate(op, c, a, f1, InsertAt(vs, a[1], f1), sz + 1, Grow(x, sz + 1), a[1], -1)
    [] op = "insert_n" ->
         Mutate(op, c, a, IF a[3] < 0 THEN f1 ELSE <<>>, InsertAt(vs, a[1], Rep(a[2], AVal(x, a[3], f1))), sz + a[2], Grow(x, sz + a[2]), a[1], -1)
    [] op = "insert_rng" ->
         \* input category at end(): element-wise append; otherwise the count is known
         Mutate(op, c, a, Fresh(a[3]), InsertAt(vs, a[1], Fresh(a[3])), sz + a[3],
                IF SinglePass(a[2]) /\ a[1] = sz THEN PushGrow(x.cap, sz, a[3]) ELSE Grow(x, sz + a[3]), a[1],
                IF SinglePass(a[2]) THEN a[3] ELSE -1)
    [] op = "insert_il" ->
         Mutate(op, c, a, Fresh(a[2]), InsertAt(vs, a[1], Fresh(a[2])), sz + a[2], Grow(x, sz + a[2]), a[1], -1)
    [] op = "append_rng" ->
         Mutate(op, c, a, Fresh(a[2]), vs \o Fresh(a[2]), sz + a[2],
                IF SinglePass(a[1]) THEN PushGrow(x.cap, sz, a[2]) ELSE Grow(x, sz + a[2]), -1, IF SinglePass(a[1]) THEN a[2] ELSE -1)
    [] op = "append_il" ->
         Mutate(op, c, a, Fresh(a[1]), vs \o Fresh(a[1]), sz + a[1], Grow(x, sz + a[1]), -1, -1)
    [] op = "assign_n"   -> Mutate(op, c, a, f1, Rep(a[1], f1[1]), a[1], Grow(x, a[1]), -1, -1)
    [] op = "assign_rng" ->
         Mutate(op, c, a, Fresh(a[2]), Fresh(a[2]), a[2],
                IF a[1] = 0 THEN PushGrow(x.cap, Min(sz, a[2]), a[2] - Min(sz, a[2]))
                ELSE IF a[1] = 8 THEN PushGrow(x.cap, 0, a[2]) ELSE Grow(x, a[2]), -1,
                IF SinglePass(a[1]) THEN a[2] ELSE -1)
    [] op \in {"assign_il", "opeq_il"} -> Mutate(op, c, a, Fresh(a[1]), Fresh(a[1]), a[1], Grow(x, a[1]), -1, -1)
    [] op = "erase"     -> Mutate(op, c, a, <<>>, EraseRange(vs, a[1], a[1] + 1), 0, x.cap, a[1], -1)
    [] op = "erase_rng" -> Mutate(op, c, a, <<>>, EraseRange(vs, a[1], a[2]), 0, x.cap, a[1], -1)
    [] op = "pop_back"  -> Mutate(op, c, a, <<>>, SubSeq(vs, 1, sz - 1), 0, x.cap, -1, -1)
    [] op = "clear"     -> Mutate(op, c, a, <<>>, <<>>, 0, x.cap, -1, -1)
    [] op = "resize"    -> Mutate(op, c, a, <<>>, ResizeTo(vs, a[1], 0), a[1], Grow(x, a[1]), -1, -1)
    [] op = "resize_v"  -> Mutate(op, c, a, IF a[2] < 0 THEN f1 ELSE <<>>, ResizeTo(vs, a[1], AVal(x, a[2], f1)), a[1], Grow(x, a[1]), -1, -1)
    [] op = "reserve"   -> Mutate(op, c, a, <<>>, vs, a[1], Grow(x, a[1]), -1, -1)
    [] op = "shrink"    ->
         LET r == Reseat(c, x, st.blocks, vs, IF Heap(x) /\ sz < x.cap THEN Max(sz, NOf(cfg, c)) ELSE x.cap, x.al, x.al)
         IN  Line(op, c, "-", a, <<>>, "ok", -1, -1, r.evs, With(st, c, r))
    [] op = "at" ->
         IF a[1] < sz /\ ~(Len(a) >= 2 /\ a[2] # 0) THEN Line(op, c, "-", a, <<>>, "ok", vs[a[1] + 1], -1, <<>>, st)
         ELSE Line(op, c, "-", a, <<>>, "out_of_range", -1, -1, <<>>, st)
    [] op = "dtor" ->
         LET b1 == IF Heap(x) THEN DropBlock(st.blocks, x.st) ELSE st.blocks
             ev == IF Heap(x) THEN << <<5, 10 + x.st, x.cap, x.al, 1, 0>> >> ELSE <<>>
         IN  Line(op, c, "-", a, <<>>, "ok", -1, -1, ev, [st EXCEPT ![c] = Absent, !.blocks = b1])

(***************************************************************************)
(* Constructors                                                            *)
(***************************************************************************)
Build(op, c, s, a, v, vals, cap, al) ==
  LET n == NOf(cfg, c) IN
  IF Len(vals) > MaxSize THEN Line(op, c, s, a, v, "length_error", -1, -1, <<>>, st)
  ELSE IF cap = n THEN
         Line(op, c, s, a, v, "ok", -1, IF op = "ctor_gen" THEN a[2] ELSE IF op = "ctor_rng" /\ SinglePass(a[2]) THEN a[3] ELSE -1,
              <<>>, [st EXCEPT ![c] = Mk(c, El(vals), n, 0, al)])
       ELSE LET id == FreshId(st.blocks) IN
         Line(op, c, s, a, v, "ok", -1, IF op = "ctor_gen" THEN a[2] ELSE IF op = "ctor_rng" /\ SinglePass(a[2]) THEN a[3] ELSE -1,
              << <<4, 10 + id, cap, al, 0, 0>> >>,
              [st EXCEPT ![c] = Mk(c, El(vals), cap, id, al), !.blocks = Append(@, <<id, cap, al>>)])

ExactCap(c, n) == IF n <= NOf(cfg, c) THEN NOf(cfg, c) ELSE n
AlOf(aid) == IF IsStd THEN 0 ELSE IF aid = 0 THEN 1 ELSE aid

PredictCtor(o) ==
  LET c == o.c
      a == o.a
      op == o.op
      al == AlOf(a[1])
  IN
  CASE op = "ctor_def" -> Build(op, c, "-", a, <<>>, <<>>, NOf(cfg, c), al)
    [] op = "ctor_n"   -> Build(op, c, "-", a, <<>>, Rep(a[2], 0), ExactCap(c, a[2]), al)
    [] op = "ctor_nv"  -> Build(op, c, "-", a, Fresh(1), Rep(a[2], 101), ExactCap(c, a[2]), al)
    [] op = "ctor_gen" -> Build(op, c, "-", a, Fresh(a[2]), Fresh(a[2]), ExactCap(c, a[2]), al)
    [] op = "ctor_rng" -> Build(op, c, "-", a, Fresh(a[3]), Fresh(a[3]),
                                IF SinglePass(a[2]) THEN PushGrow(NOf(cfg, c), 0, a[3]) ELSE ExactCap(c, a[3]), al)
    [] op = "ctor_il"  -> Build(op, c, "-", a, Fresh(a[2]), Fresh(a[2]), ExactCap(c, a[2]), al)

(***************************************************************************)
(* Two-container operations (dispatch of 2825-3240, 4416-4585)             *)
(***************************************************************************)
\* steal: dst takes the block of src; src becomes a default (empty, inline) container
StealInto(d, s, alAfter, dropOld) ==
  LET xd == st[d]
      xs == st[s]
      b1 == IF dropOld /\ xd.p /\ Heap(xd) THEN DropBlock(st.blocks, xd.st) ELSE st.blocks
      ev == IF dropOld /\ xd.p /\ Heap(xd) THEN << <<5, 10 + xd.st, xd.cap, xd.al, 1, 0>> >> ELSE <<>>
  IN [post |-> [st EXCEPT ![d] = Mk(d, xs.e, xs.cap, xs.st, alAfter),
                          ![s] = Mk(s, <<>>, NOf(cfg, s), 0, xs.al),
                          !.blocks = b1],
      evs |-> ev]

PredictCtorFrom(o) ==
  LET d  == o.c
      s  == o.s
      a  == o.a
      xs == st[s]
      sz == Len(xs.e)
      nd == NOf(cfg, d)
      ns == NOf(cfg, s)
  IN
  IF o.op = "ctor_copy" THEN
    LET al == IF IsStd THEN 0 ELSE IF a[1] # 0 THEN a[1] ELSE IF SOCCC = 1 THEN xs.al + 50 ELSE xs.al
    IN  Build(o.op, d, s, a, <<>>, Vals(xs), ExactCap(d, sz), al)
  ELSE
    \* (for std::allocator / always-equal allocators the allocator-extended form delegates to the plain move constructor,
    \* which adopts the source's allocator: equal by definition, but a different id)
    LET al      == IF IsStd THEN 0 ELSE IF a[1] # 0 /\ ~AE THEN a[1] ELSE xs.al
        elemwise == a[1] # 0 /\ ~AllocEq(cfg, a[1], xs.al)
        steal   == ~elemwise /\ (IF ns <= nd THEN nd < xs.cap ELSE Heap(xs))
    IN
    IF steal THEN
      LET r == StealInto(d, s, al, FALSE) IN Line(o.op, d, s, a, <<>>, "ok", -1, -1, r.evs, r.post)
    ELSE Build(o.op, d, s, a, <<>>, Vals(xs), ExactCap(d, sz), al)

PredictBinary(o) ==
  LET d  == o.c
      s  == o.s
      a  == o.a
      op == o.op
      xd == st[d]
      xs == st[s]
      szs == Len(xs.e)
      szd == Len(xd.e)
      nd == NOf(cfg, d)
      ns == NOf(cfg, s)
      eq == AllocEq(cfg, xd.al, xs.al)
      same == Line(op, d, s, a, <<>>, "ok", -1, -1, <<>>, st)
  IN
  CASE op \in {"assign_copy", "assign_copy_f"} ->
         IF d = s THEN same
         ELSE
         LET alAfter == IF POCCA /\ ~IsStd THEN xs.al ELSE xd.al
             special == POCCA /\ ~IsStd /\ ~AE /\ xd.al # xs.al
             newcap  == IF special THEN (IF nd < szs THEN szs ELSE IF Heap(xd) THEN nd ELSE xd.cap)
                        ELSE (IF xd.cap < szs THEN GrowChoice(xd.cap, szs) ELSE xd.cap)
             r == Reseat(d, xd, st.blocks, Vals(xs), newcap, IF special THEN xs.al ELSE xd.al, alAfter)
         IN  Line(op, d, s, a, <<>>, "ok", -1, -1, r.evs, With(st, d, r))
    [] op \in {"assign_move", "assign_move_f"} ->
         IF d = s THEN same
         ELSE
         LET alAfter == IF POCMA /\ ~IsStd THEN xs.al ELSE xd.al
             movable == IsStd \/ POCMA \/ AE \/ xd.al = xs.al
         IN
         IF movable /\ (IF ns <= nd THEN nd < xs.cap ELSE Heap(xs)) THEN
           LET r == StealInto(d, s, alAfter, TRUE) IN Line(op, d, s, a, <<>>, "ok", -1, -1, r.evs, r.post)
         ELSE
           LET newcap ==
                 IF ~movable THEN (IF xd.cap < szs THEN GrowChoice(xd.cap, szs) ELSE xd.cap)
                 ELSE IF ns <= nd THEN (IF nd < xd.cap THEN nd ELSE xd.cap)
                 ELSE (IF xd.cap < szs THEN GrowChoice(xd.cap, szs) ELSE xd.cap)
               \* GreaterI: a heap destination adopting an unequal allocator is re-seated in a block of the same size
               realloc == movable /\ ns > nd /\ xd.cap >= szs /\ Heap(xd) /\ ~AllocEq(cfg, xd.al, xs.al)
               alBlk == IF movable THEN xs.al ELSE xd.al
           IN
           IF realloc THEN
             LET id == FreshId(st.blocks)
                 b1 == Append(DropBlock(st.blocks, xd.st), <<id, xd.cap, xs.al>>)
             IN Line(op, d, s, a, <<>>, "ok", -1, -1,
                     << <<4, 10 + id, xd.cap, xs.al, 0, 0>>, <<5, 10 + xd.st, xd.cap, xd.al, 1, 0>> >>,
                     [st EXCEPT ![d] = Mk(d, xs.e, xd.cap, id, alAfter), !.blocks = b1])
           ELSE
             LET r == Reseat(d, xd, st.blocks, Vals(xs), newcap, alBlk, alAfter)
             IN  Line(op, d, s, a, <<>>, "ok", -1, -1, r.evs, With(st, d, r))
    [] op = "swap" ->
         IF d = s THEN same
         ELSE
         LET swappable == IsStd \/ POCS \/ AE
             lo == IF xd.cap < xs.cap THEN d ELSE s        \* `this` of swap_default / swap_unequal_no_propagate
             hi == Other(lo)
             xl == st[lo]
             xh == st[hi]
             alL == IF POCS /\ ~IsStd THEN xh.al ELSE xl.al
             alH == IF POCS /\ ~IsStd THEN xl.al ELSE xh.al
         IN
         IF swappable \/ xd.al = xs.al THEN
           \* swap_default: heap buffers change hands, inline sides are moved element-wise
           LET pl == IF Heap(xh) THEN Mk(lo, xh.e, xh.cap, xh.st, alL) ELSE Mk(lo, xh.e, xl.cap, xl.st, alL)
               ph == IF Heap(xl) THEN Mk(hi, xl.e, xl.cap, xl.st, alH)
                     ELSE IF Heap(xh) THEN Mk(hi, xl.e, NOf(cfg, hi), 0, alH)
                     ELSE Mk(hi, xl.e, xh.cap, xh.st, alH)
           IN Line(op, d, s, a, <<>>, "ok", -1, -1, <<>>, [st EXCEPT ![lo] = pl, ![hi] = ph])
         ELSE
           \* swap_unequal_no_propagate: the smaller-capacity side reallocates when needed
           LET r == Reseat(lo, xl, st.blocks, Vals(xh), IF xl.cap < Len(xh.e) THEN GrowChoice(xl.cap, Len(xh.e)) ELSE xl.cap, xl.al, xl.al)
           IN Line(op, d, s, a, <<>>, "ok", -1, -1, r.evs,
                   [st EXCEPT ![lo] = r.x, ![hi] = Mk(hi, xl.e, xh.cap, xh.st, xh.al), !.blocks = r.blocks])
    [] op = "append_copy" ->
         LET r == Reseat(d, xd, st.blocks, Vals(xd) \o Vals(xs), IF szd + szs <= xd.cap THEN xd.cap ELSE GrowChoice(xd.cap, szd + szs), xd.al, xd.al)
         IN  IF szd + szs > MaxSize THEN Line(op, d, s, a, <<>>, "length_error", -1, -1, <<>>, st)
             ELSE Line(op, d, s, a, <<>>, "ok", -1, -1, r.evs, With(st, d, r))
    [] op = "append_move" ->
         LET r == Reseat(d, xd, st.blocks, Vals(xd) \o Vals(xs), IF szd + szs <= xd.cap THEN xd.cap ELSE GrowChoice(xd.cap, szd + szs), xd.al, xd.al)
             p1 == With(st, d, r)
         IN  IF szd + szs > MaxSize THEN Line(op, d, s, a, <<>>, "length_error", -1, -1, <<>>, st)
             ELSE Line(op, d, s, a, <<>>, "ok", -1, -1, r.evs, [p1 EXCEPT ![s] = Mk(s, <<>>, xs.cap, xs.st, xs.al)])
    [] op = "cmp" ->
         Line(op, d, s, a, <<>>, "ok", CmpMask(Vals(xd), Vals(xs), FALSE), -1, <<>>, st)

Predict(o) ==
  IF IsCtor(o.op) THEN PredictCtor(o)
  ELSE IF IsCtorFrom(o.op) THEN PredictCtorFrom(o)
  ELSE IF IsBinary(o.op) THEN PredictBinary(o)
  ELSE PredictUnary(o)

(***************************************************************************)
(* Which calls are explored from a state                                   *)
(***************************************************************************)
O(op, c, s, a) == [op |-> op, c |-> c, s |-> s, a |-> a]

Aliases(sz) == IF Profile = "wide" THEN {-1} \cup ({0, sz - 1} \cap (0..(sz - 1))) ELSE {-1} \cup (0..(sz - 1))
LenBound == IF Profile = "max" THEN MaxSize + 2 ELSE IF Profile = "wide" THEN 400 ELSE MaxLen

\* "wide": boundary arguments only (C12: no internal size computation may truncate or wrap, also for 8/16-bit
\* size_type where lengths beyond 255 / 65535 matter): around max_size(), around 2^8, and a few small ones
WideSet(sz) == {0, 1, 2, MaxSize - sz - 1, MaxSize - sz, MaxSize - sz + 1, 255 - sz, 256 - sz, 255, 256, 257, 300} \cap (0..400)
Counts(sz)  == IF Profile = "wide" THEN WideSet(sz) ELSE 0..Min(MaxCnt, LenBound - sz)
Sizes       == IF Profile = "wide" THEN WideSet(0) \cup {MaxSize - 1, MaxSize, MaxSize + 1} ELSE 0..LenBound
Positions(sz) == IF Profile = "wide" THEN {0, sz} \cup ({1} \cap (0..sz)) ELSE 0..sz

UnaryAll(c) ==
  LET x == st[c]
      sz == Len(x.e)
      room == LenBound - sz            \* how many elements may be added
      cnts == Counts(sz)
      \* "just too many for the capacity": from EVERY explored (size, capacity) state one count that overflows the current
      \* capacity by one, however large that is (a shrunk container with a big buffer and few elements included); the
      \* resulting state lies outside the length bound and is not explored further (CONSTRAINT Bound)
      over == IF Profile \in {"one", "impl", "max"} THEN {x.cap - sz + 1} \cap (1..Min(MaxCap + 1, 9)) ELSE {}
      cntsO == cnts \cup over
  IN
     {O("push_back", c, "-", <<al>>) : al \in IF room >= 1 /\ Copyable THEN Aliases(sz) ELSE {}}
  \cup {O("push_back_m", c, "-", <<>>) : z \in IF room >= 1 THEN {0} ELSE {}}
  \cup {O("emplace_back_c", c, "-", <<al>>) : al \in IF room >= 1 /\ Copyable THEN Aliases(sz) ELSE {}}
  \cup {O("emplace_back_v", c, "-", <<>>) : z \in IF room >= 1 THEN {0} ELSE {}}
  \cup {O(nm, c, "-", <<pos, al>>) : nm \in {"insert", "emplace_c"}, pos \in IF room >= 1 /\ Copyable THEN Positions(sz) ELSE {}, al \in Aliases(sz)}
  \cup {O(nm, c, "-", <<pos>>) : nm \in {"insert_m", "emplace_v"}, pos \in IF room >= 1 THEN Positions(sz) ELSE {}}
  \cup {O("insert_n", c, "-", <<pos, n, al>>) : pos \in IF Copyable THEN Positions(sz) ELSE {}, n \in cntsO, al \in Aliases(sz)}
  \cup {O("insert_rng", c, "-", <<pos, k, n>>) : pos \in Positions(sz), k \in Kinds \ {7}, n \in cntsO}
  \cup {O("insert_il", c, "-", <<pos, n>>) : pos \in IF Copyable THEN Positions(sz) ELSE {}, n \in cnts \cap (0..6)}
  \cup {O("append_rng", c, "-", <<k, n>>) : k \in Kinds, n \in cntsO}
  \cup {O("append_il", c, "-", <<n>>) : n \in IF Copyable THEN cnts \cap (0..6) ELSE {}}
  \cup {O("assign_n", c, "-", <<n>>) : n \in IF Copyable THEN Sizes \cup {m + sz : m \in over} ELSE {}}
  \cup {O("assign_rng", c, "-", <<k, n>>) : k \in Kinds, n \in Sizes \cup {m + sz : m \in over}}
  \cup {O(nm, c, "-", <<n>>) : nm \in {"assign_il", "opeq_il"}, n \in IF Copyable THEN Sizes \cap (0..6) ELSE {}}
  \cup {O("erase", c, "-", <<pos>>) : pos \in Positions(sz) \cap (0..(sz - 1))}
  \cup {O("erase_rng", c, "-", <<fl[1], fl[2]>>) : fl \in {p \in Positions(sz) \X Positions(sz) : p[1] <= p[2]}}
  \cup {O("pop_back", c, "-", <<>>) : z \in IF sz > 0 THEN {0} ELSE {}}
  \cup {O("clear", c, "-", <<>>), O("shrink", c, "-", <<>>), O("dtor", c, "-", <<>>)}
  \cup {O("resize", c, "-", <<n>>) : n \in Sizes \cup {m + sz : m \in over}}
  \cup {O("resize_v", c, "-", <<n, al>>) : n \in IF Copyable THEN Sizes ELSE {}, al \in Aliases(sz)}
  \cup {O("reserve", c, "-", <<n>>) : n \in IF Profile = "wide" THEN Sizes
                                             ELSE (0..Min(MaxCap, MaxSize + 1)) \cap {0, x.cap - 1, x.cap, x.cap + 1, 2 * x.cap + 1, MaxSize, MaxSize + 1, NOf(cfg, c) + 1}}
  \cup {O("at", c, "-", <<i>>) : i \in Positions(sz)}
  \cup {O("at", c, "-", <<i, m>>) : i \in {0, 1}, m \in 1..3}        \* indices far beyond any size (wrap / sign-bit arithmetic)

\* enough unary calls to reach every (size, capacity, inline/heap) state of a slot
UnaryMovers(c) ==
  LET x == st[c]
      sz == Len(x.e)
  IN
     {O("push_back_m", c, "-", <<>>) : z \in IF sz < MaxLen THEN {0} ELSE {}}
  \cup {O("pop_back", c, "-", <<>>) : z \in IF sz > 0 THEN {0} ELSE {}}
  \cup {O("clear", c, "-", <<>>), O("shrink", c, "-", <<>>), O("dtor", c, "-", <<>>)}
  \cup {O("reserve", c, "-", <<n>>) : n \in {x.cap + 1} \cap (0..MaxCap)}

CtorAll(c) ==
     {O("ctor_def", c, "-", <<aid>>) : aid \in AllocIds}
  \cup {O("ctor_n", c, "-", <<aid, n>>) : aid \in AllocIds, n \in Sizes}
  \cup {O("ctor_nv", c, "-", <<aid, n>>) : aid \in IF Copyable THEN AllocIds ELSE {}, n \in Sizes}
  \cup {O("ctor_gen", c, "-", <<aid, n>>) : aid \in AllocIds, n \in Sizes}
  \cup {O("ctor_rng", c, "-", <<aid, k, n>>) : aid \in AllocIds, k \in Kinds, n \in Sizes}
  \cup {O("ctor_il", c, "-", <<aid, n>>) : aid \in IF Copyable THEN AllocIds ELSE {}, n \in Sizes \cap (0..4)}

CtorMovers(c) == {O("ctor_def", c, "-", <<aid>>) : aid \in AllocIds} \cup {O("ctor_n", c, "-", <<aid, n>>) : aid \in AllocIds, n \in {MaxLen}}

BinaryAll(d, s) ==
  IF d = s THEN
       {O(nm, d, s, <<>>) : nm \in (IF Copyable THEN {"assign_copy"} ELSE {}) \cup {"assign_move", "cmp"}}
       \cup {O("swap", d, s, <<m>>) : m \in {0, 1}}
  ELSE
       {O(nm, d, s, <<>>) : nm \in (IF Copyable THEN {"assign_copy", "assign_copy_f"} ELSE {}) \cup {"assign_move", "assign_move_f", "cmp"}}
       \cup {O("swap", d, s, <<m>>) : m \in IF NA = NB THEN {0, 1} ELSE {}}
       \cup {O(nm, d, s, <<>>) : nm \in IF Len(st[d].e) + Len(st[s].e) <= LenBound
                                       THEN (IF Copyable THEN {"append_copy"} ELSE {}) \cup {"append_move"} ELSE {}}

CtorFromAll(d, s) ==
  \* aid = 0: the PLAIN copy / move constructor (select_on_container_copy_construction / the source's allocator), whatever the
  \* allocator kind; aid # 0: the allocator-extended forms
  {O(nm, d, s, <<aid>>) : nm \in (IF Copyable THEN {"ctor_copy"} ELSE {}) \cup {"ctor_move"}, aid \in AllocIds \cup {0}}

Enabled ==
  CASE Profile \in {"one", "max", "wide"} ->
         IF st.A.p THEN UnaryAll("A") ELSE CtorAll("A")
    [] Profile = "impl" ->
         {o \in (IF st.A.p THEN UnaryAll("A") ELSE CtorAll("A")) : o.op \in Modelled /\ RangeKindOK(o)}
    [] Profile = "impl2" ->
         \* the two-container routines through L2 (every throw point); movers through L2 as well
         {o \in (UNION { IF st[c].p THEN UnaryMovers(c) ELSE CtorMovers(c) : c \in {"A", "B"} }
                 \cup UNION { IF st[d].p /\ st[s].p THEN BinaryAll(d, s) ELSE {} : d \in {"A", "B"}, s \in {"A", "B"} }
                 \cup UNION { IF ~st[d].p /\ st[Other(d)].p THEN CtorFromAll(d, Other(d)) ELSE {} : d \in {"A", "B"} })
            : o.op \in Modelled}
    [] Profile = "two" ->
         UNION { IF st[c].p THEN UnaryMovers(c) ELSE CtorMovers(c) : c \in {"A", "B"} }
         \cup UNION { IF st[d].p /\ st[s].p THEN BinaryAll(d, s) ELSE {} : d \in {"A", "B"}, s \in {"A", "B"} }
         \cup UNION { IF ~st[d].p /\ st[Other(d)].p THEN CtorFromAll(d, Other(d)) ELSE {} : d \in {"A", "B"} }

(***************************************************************************)
(* Normalisation: canonical element values, canonical block ids            *)
(***************************************************************************)
Norm(s0) ==
  LET ren(c) == IF s0[c].p THEN [s0[c] EXCEPT !.e = Canon(Len(s0[c].e))] ELSE s0[c]
      a1 == ren("A")
      b1 == ren("B")
      \* block ids: A's block becomes 1, B's block becomes 2
      a2 == IF a1.p /\ Heap(a1) THEN [a1 EXCEPT !.st = 1] ELSE a1
      b2 == IF b1.p /\ Heap(b1) THEN [b1 EXCEPT !.st = 2] ELSE b1
      blk == (IF a1.p /\ Heap(a1) THEN << <<1, a1.cap, BlockRec(s0.blocks, a1.st)[3]>> >> ELSE <<>>)
             \o (IF b1.p /\ Heap(b1) THEN << <<2, b1.cap, BlockRec(s0.blocks, b1.st)[3]>> >> ELSE <<>>)
  IN [A |-> a2, B |-> b2, blocks |-> blk]

StateOf(ln) == [A |-> ln.post.A, B |-> ln.post.B, blocks |-> ln.blocks]

OpTuple(o) == <<o.op, o.c, o.s, o.a>>

Init ==
  /\ st = [A |-> Absent, B |-> Absent, blocks |-> <<>>]
  /\ hist = <<>>
  /\ everBig = FALSE
  /\ allocCount = 0

ShapeOf(s0) ==
  LET pr(x) == IF x.p THEN <<Len(x.e), x.cap, StN(x), x.al>> ELSE <<>> IN <<pr(s0.A), pr(s0.B), s0.blocks>>

\* one explored transition: the predicted line must satisfy the contract; emit it as a stimulus
Take(o, ln, extra) ==
  LET post   == StateOf(ln)
      checks == OpChecks(cfg, st, post, ln) \cup extra
      bad    == {t \in checks : t[3] = 0}
      shp(s0, c) == IF s0[c].p THEN <<Len(s0[c].e), s0[c].cap, StN(s0[c]) > 0>> ELSE <<0, NOf(cfg, c), FALSE>>
      stepOK(c) == ~post[c].p \/ cfg.max < NOf(cfg, c)
                   \/ StepClosed(NOf(cfg, c), cfg.max, StepClass(o.op), shp(st, c)[1], shp(st, c)[2], shp(st, c)[3], shp(post, c)[1], shp(post, c)[2], shp(post, c)[3])
  IN /\ Assert(bad = {}, <<"policy / L2 violates the contract", o, ln.k, bad>>)
     /\ Assert(stepOK("A") /\ stepOK("B"), <<"a transition is not a step of ShapeInd (spec/ShapeRel.tla)", o, ln.k>>)
     /\ (Len(hist) >= PrintFrom => PrintT(<<"S", hist, OpTuple(o), ln.out>>))
     /\ st' = Norm(post)
     /\ hist' = Append(hist, OpTuple(o))
     /\ allocCount' = allocCount + Len(Allocs(ln.evs))
     /\ everBig' = (everBig \/ (\E c \in {"A", "B"} : post[c].p /\ Len(post[c].e) > NOf(cfg, c))
                            \/ (o.op = "reserve" /\ o.a[1] > NOf(cfg, o.c))
                            \/ ln.out # "ok")      \* a call that failed was asking for more than it got

\* the request part of a line (what the caller passes), for L2
Req(o, k) ==
  LET p == Predict(o) IN      \* the policy only supplies the fresh values the driver would use
  [t |-> "op", op |-> o.op, c |-> o.c, s |-> o.s, a |-> o.a, v |-> p.v, k |-> k, id |-> "mc", i |-> 0, ret |-> p.ret]

Next ==
  IF Profile \in {"impl", "impl2"} THEN
    \* L2: every throw point of every modelled call.  The exceptional exits lead to states that are explored on.
    \E o \in Enabled :
      LET l0 == Exec(cfg, st, Req(o, <<0, 0>>)) IN
      \* the shape-level policy that generates the stimuli is exactly the fault-free projection of L2
      /\ Assert(ShapeOf(Norm(StateOf(l0))) = ShapeOf(Norm(StateOf(Predict(o)))) /\ l0.out = Predict(o).out,
                <<"policy and L2 disagree on the shape of the result", o>>)
      /\ \/ \E k \in 0..l0.nf :
              LET ln == IF k = 0 THEN l0 ELSE Exec(cfg, st, Req(o, <<k, 0>>)) IN
              Take(o, ln, MemChecks(cfg, st, StateOf(ln), ln))
         \/ /\ Pairs
            /\ \E k \in 1..l0.nf :
                 LET l1 == Exec(cfg, st, Req(o, <<k, 0>>)) IN
                 \E k2 \in (k + 1)..l1.nf :
                   LET ln == Exec(cfg, st, Req(o, <<k, k2>>)) IN
                   Take(o, ln, MemChecks(cfg, st, StateOf(ln), ln))
  ELSE
    \E o \in Enabled : Take(o, Predict(o), {})

Spec == Init /\ [][Next]_<<st, hist, everBig, allocCount>>

View == <<st, everBig, allocCount > 0>>

\* (a container whose allocator came out of the marking select_on_container_copy_construction -- id + 50 -- is a leaf: the
\* call that made it is emitted and checked, the state is not explored further, or ids would grow without bound)
Bound == /\ \A c \in {"A", "B"} : st[c].p => st[c].cap <= MaxCap /\ Len(st[c].e) <= LenBound /\ st[c].al < 50
         /\ (Profile = "wide" => Len(hist) <= 1)

(***************************************************************************)
(* Invariants (design level)                                               *)
(***************************************************************************)
InvStorage == \A t \in InvChecks(cfg, st, TRUE) : t[3] # 0
\* C04, derived: a container that never held more than inline_capacity() elements and was never asked
\* to reserve more never touches the allocator at all
InvNeverBigNeverAllocates == ~everBig => allocCount = 0
InvTypes == /\ \A c \in {"A", "B"} : st[c].p => Len(st[c].e) <= LenBound + 400
=============================================================================
