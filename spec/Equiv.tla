------------------------------- MODULE Equiv -------------------------------
(***************************************************************************)
(* C17: two traces of the SAME stimuli, recorded from the same driver      *)
(* built under two different configurations (language standard, compiler,  *)
(* concepts on/off), must agree line by line on every observable field:    *)
(* outcome kind (thrown exception), return values, contents with moved-    *)
(* from flags, sizes, capacities, inline/heap, allocator ids, live blocks. *)
(* Only feature availability may differ (the three-way comparison bits).   *)
(* Each trace is, separately, validated against the L1 contract.           *)
(***************************************************************************)
EXTENDS Naturals, Integers, Sequences, FiniteSets, TLC, Json, IOUtils

Ref == ndJsonDeserialize(IOEnv.TRACE)
Oth == ndJsonDeserialize(IOEnv.TRACE2)

VARIABLE l

Has(r, f) == f \in DOMAIN r

ObsCont(x) == IF x.p THEN <<x.e, x.sz, x.cap, x.st > 0, x.al, x.inl, x.inlb, x.ok, x.nm, x.max>> ELSE <<>>

\* comparison masks: the six operators always; the three-way bits only where both have them
CmpRet(a, b) == IF a.op = "cmp" THEN (a.ret % 64) = (b.ret % 64) /\ ((a.ret >= 512 /\ b.ret >= 512) => a.ret = b.ret)
                ELSE a.ret = b.ret

SameOp(a, b) ==
  /\ a.op = b.op /\ a.id = b.id /\ a.i = b.i /\ a.k = b.k
  /\ a.out = b.out
  /\ (Has(a, "post") <=> Has(b, "post"))
  /\ Has(a, "post") =>
       /\ CmpRet(a, b) /\ a.ret2 = b.ret2 /\ a.v = b.v
       /\ ObsCont(a.post.A) = ObsCont(b.post.A) /\ ObsCont(a.post.B) = ObsCont(b.post.B)
       /\ a.blocks = b.blocks /\ a.can = b.can

\* a faulted call is comparable only when both builds saw the same number of fallible events
Comparable(a, b) == a.t = "op" /\ b.t = "op" /\ (a.k[1] = 0 \/ (Has(a, "nf") /\ Has(b, "nf") /\ a.nf = b.nf))

Init == l = 2
Step ==
  /\ l <= Len(Ref)
  /\ IF l > Len(Oth) THEN PrintT(<<"V", l, "C17", "the other build's trace ends early">>)
     ELSE LET a == Ref[l]
              b == Oth[l]
          IN  IF a.t # b.t THEN PrintT(<<"V", l, "C17", "traces diverge in structure">>)
              ELSE IF a.t = "op" THEN
                     /\ (Comparable(a, b) => PrintT(<<"H", l, {"C17"}>>))
                     /\ ((Comparable(a, b) /\ ~SameOp(a, b)) => PrintT(<<"V", l, "C17", "observable result differs between builds">>))
                     /\ ((a.k[1] > 0 /\ Has(a, "nf") /\ Has(b, "nf") /\ a.nf # b.nf) =>
                            PrintT(<<"N", l, "fallible-event count differs", a.nf, b.nf>>))
                   ELSE IF a.t = "snap" THEN
                     ((ObsCont(a.post.A) # ObsCont(b.post.A) \/ ObsCont(a.post.B) # ObsCont(b.post.B)) =>
                            PrintT(<<"V", l, "C17", "observable state differs between builds">>))
                   ELSE TRUE
  /\ l' = l + 1
Finish == l = Len(Ref) + 1 /\ PrintT(<<"END", Len(Ref)>>) /\ l' = l + 1
Next == Step \/ Finish
Spec == Init /\ [][Next]_l
=============================================================================
