------------------------------ MODULE SVecImpl ------------------------------
(***************************************************************************)
(* L2 -- the implementation-shaped specification.                          *)
(*                                                                         *)
(* Every modelled routine of small_vector.hpp is transcribed as a SCRIPT:  *)
(* the sequence of micro-steps the code takes (allocate, construct,        *)
(* assign, destroy, deallocate, set size / data pointer) with the exact    *)
(* try / catch structure of the header.  A small interpreter executes a    *)
(* script on a memory model (cells of the inline buffers, of allocator     *)
(* blocks and of temporaries), logs the same event tuples the driver logs, *)
(* and makes the k-th fallible step throw.  The result of executing a call *)
(* is a trace line in exactly the format of a recorded line, so            *)
(*   - design level (MC_Impl): for every explored state, call and throw    *)
(*     point the L2 line must pass the whole L1 contract and the L0        *)
(*     machine -- "size only covers live elements" and correct roll-back   *)
(*     are thereby checked at every intermediate throw point;              *)
(*   - conformance (trace tier): the L2 line predicted from the recorded   *)
(*     pre-state is compared with the recorded line (same events in the    *)
(*     same order, same post-state).  L2 is deliberately MORE specific     *)
(*     than the properties: a mismatch is SPEC-DRIFT, never a violation.   *)
(*                                                                         *)
(* Line numbers refer to small_vector.hpp at the pinned commit + fixes.    *)
(***************************************************************************)
EXTENDS SVecMem

Raw == <<0, 0, 0>>
Live(v, mf) == <<1, v, mf>>

Modelled == {"push_back", "push_back_m", "emplace_back_c", "emplace_back_v", "insert", "insert_m", "emplace_c", "emplace_v",
             "insert_n", "resize", "resize_v", "reserve", "shrink", "assign_n", "erase", "erase_rng", "pop_back", "clear",
             "ctor_def", "ctor_n", "ctor_nv", "ctor_gen", "dtor",
             \* contiguous (pointer / initializer_list) ranges; other iterator categories are L1 / L0 only
             "assign_rng", "assign_il", "opeq_il", "append_rng", "append_il", "insert_rng", "insert_il", "ctor_rng", "ctor_il",
             \* two-container routines
             "ctor_copy", "ctor_move", "assign_copy", "assign_copy_f", "assign_move", "assign_move_f", "swap",
             "append_copy", "append_move", "cmp",
             \* non-member erase / erase_if: std::remove(_if) as libstdc++ implements it, then erase (new_end, end ())
             "erase_val", "erase_if"}

\* range calls are modelled for every multi-pass kind (forward, bidirectional, random access, pointer, move_iterator,
\* another container's iterators); single-pass input ranges (kind 0) are L1 / L0 only
RangeKind(ln) ==
  CASE ln.op \in {"assign_rng", "append_rng"} -> ln.a[1]
    [] ln.op \in {"insert_rng", "ctor_rng"}   -> ln.a[2]
    [] OTHER -> 4
RangeKindOK(ln) ==
  \/ RangeKind(ln) \in {1, 2, 3, 4, 5, 6}
  \* forward range of construct-only sources (constructible, not assignable, from *first): constructor, assign, append
  \/ RangeKind(ln) = 7 /\ ln.op # "insert_rng"
  \* single-pass range of construct-only sources (a mid-sequence insert collects it in a temporary container first)
  \/ RangeKind(ln) = 8
  \* single-pass input ranges: everything except the mid-sequence insert (which buffers the range in a temporary container)
  \/ RangeKind(ln) = 0

(***************************************************************************)
(* Instructions                                                            *)
(***************************************************************************)
IAlloc(id, n, aid)   == [t |-> "alloc", id |-> id, n |-> n, aid |-> aid]
IDealloc(id, n, aid) == [t |-> "dealloc", id |-> id, n |-> n, aid |-> aid]
ICtor(r, i, kind, sr, si, v) == [t |-> "ctor", r |-> r, i |-> i, kind |-> kind, sr |-> sr, si |-> si, v |-> v]
IAsg(r, i, kind, sr, si)     == [t |-> "asg", r |-> r, i |-> i, kind |-> kind, sr |-> sr, si |-> si]
IDtor(r, i)          == [t |-> "dtor", r |-> r, i |-> i]
ISetHd(c, cap, st)   == [t |-> "sethd", c |-> c, cap |-> cap, st |-> st]
ISetSz(c, sz)        == [t |-> "setsz", c |-> c, sz |-> sz]
ISetP(c, p, al)      == [t |-> "setp", c |-> c, p |-> p, al |-> al]
ITry(body, handler)  == [t |-> "try", body |-> body, handler |-> handler]
IUc(items)           == [t |-> "uc", items |-> items]      \* self-cleaning uninitialized_copy / fill / value-construct
IThrow(what)         == [t |-> "throw", what |-> what]
IRet(x)              == [t |-> "ret", x |-> x]
IStream(code, j, len) == [t |-> "stream", code |-> code, j |-> j, len |-> len]   \* single-pass iterator: 6 dereference / 7 increment at position j
IGen(j)              == [t |-> "gen", j |-> j]                \* one call of the caller's generator (fallible, logged as event 8)
ITick(fk)            == [t |-> "tick", fk |-> fk]        \* a fallible step of the caller's iterator (no event): 8 dereference, 9 increment

InlRegion(c) == IF c = "A" THEN 1 ELSE IF c = "B" THEN 2 ELSE 3      \* "T": a temporary container on the stack (its inline cells are region 3)

(***************************************************************************)
(* Interpreter                                                             *)
(***************************************************************************)
MoveKind(cfg) == IF cfg.hasMove THEN 2 ELSE 1                                   \* copy-only types: an rvalue binds to the copy ctor
StrongKind(cfg) == IF cfg.hasMove /\ (cfg.nothrowMoveCtor \/ ~cfg.copyable) THEN 2 ELSE 1     \* relocate_with_move (2505)

NoCopyThrow(cfg) == "nothrowCopy" \in DOMAIN cfg /\ cfg.nothrowCopy      \* flavour NC: copy ctor / copy assignment are noexcept
Fallible(cfg, ins) ==
  CASE ins.t = "alloc" -> TRUE
    [] ins.t = "tick" -> TRUE
    [] ins.t = "gen"  -> TRUE
    [] ins.t = "stream" -> TRUE
    [] ins.t = "ctor" -> ins.kind \in {0, 3} \/ (ins.kind = 1 /\ ~NoCopyThrow(cfg)) \/ (ins.kind = 2 /\ ~cfg.nothrowMoveCtor)
    [] ins.t = "asg"  -> (ins.kind = 1 /\ ~NoCopyThrow(cfg)) \/ (ins.kind = 2 /\ ~cfg.nothrowMoveAssign)
    [] ins.t = "uswap" -> TRUE
    [] OTHER -> FALSE

FaultKind(ins) ==
  CASE ins.t = "alloc" -> 1
    [] ins.t = "tick" -> ins.fk
    [] ins.t = "gen"  -> 10
    [] ins.t = "stream" -> IF ins.code = 6 THEN 8 ELSE 9
    [] ins.t = "ctor" -> (CASE ins.kind = 0 -> 6 [] ins.kind = 1 -> 2 [] ins.kind = 2 -> 3 [] OTHER -> 7)
    [] ins.t = "asg" -> IF ins.kind = 1 THEN 4 ELSE 5
    [] ins.t = "uswap" -> 11
    [] OTHER -> 0

CellAt(s, r, i) == IF r = 3 THEN s.tmp[i + 1] ELSE IF r = 4 THEN Live(s.ext[i], 0) ELSE s.mem[r][i + 1]
SetCell(s, r, i, c) == IF r = 3 THEN [s EXCEPT !.tmp[i + 1] = c] ELSE [s EXCEPT !.mem[r][i + 1] = c]
MarkMoved(s, r, i) == IF r = 4 \/ r = 0 THEN s
                      ELSE LET c == CellAt(s, r, i) IN SetCell(s, r, i, <<c[1], c[2], 1>>)

\* one primitive instruction without fault; returns the new machine state
Prim(cfg, s, ins) ==
  CASE ins.t = "alloc" ->
         [s EXCEPT !.mem = @ @@ ((10 + ins.id) :> [j \in 1..ins.n |-> Raw]),
                   !.blk = @ \cup {<<ins.id, ins.n, ins.aid>>},
                   !.evs = Append(@, <<4, 10 + ins.id, ins.n, ins.aid, 0, 0>>)]
    [] ins.t = "dealloc" ->
         [s EXCEPT !.blk = {b \in @ : b[1] # ins.id},
                   !.evs = Append(@, <<5, 10 + ins.id, ins.n, ins.aid, 1, 0>>)]
    [] ins.t = "ctor" ->
         LET src == IF ins.kind \in {1, 2} THEN CellAt(s, ins.sr, ins.si) ELSE Raw
             val == CASE ins.kind = 0 -> Live(cfg.defval, 0)
                      [] ins.kind = 3 -> Live(ins.v, 0)
                      [] OTHER -> Live(src[2], src[3])
             s1  == SetCell(s, ins.r, ins.i, val)
             s2  == IF ins.kind = 2 THEN MarkMoved(s1, ins.sr, ins.si) ELSE s1
         IN [s2 EXCEPT !.evs = Append(@, <<1, ins.r, ins.i, ins.kind, IF ins.kind \in {1, 2} THEN ins.sr ELSE 0,
                                             IF ins.kind \in {1, 2} THEN ins.si ELSE 0>>)]
    [] ins.t = "asg" ->
         LET src == CellAt(s, ins.sr, ins.si)
             self == ins.sr = ins.r /\ ins.si = ins.i
             s1  == IF self THEN s ELSE SetCell(s, ins.r, ins.i, Live(src[2], src[3]))
             s2  == IF ins.kind = 2 /\ ~self THEN MarkMoved(s1, ins.sr, ins.si) ELSE s1
         IN [s2 EXCEPT !.evs = Append(@, <<2, ins.r, ins.i, ins.kind, ins.sr, ins.si>>)]
    [] ins.t = "dtor" ->
         [SetCell(s, ins.r, ins.i, Raw) EXCEPT !.evs = Append(@, <<3, ins.r, ins.i, 0, 0, 0>>)]
    [] ins.t = "uswap" ->          \* the element type's own swap (found by ADL): exchanges the two objects, creates nothing, logs nothing
         LET ca == CellAt(s, ins.ra, ins.i)
             cb == CellAt(s, ins.rb, ins.i)
         IN SetCell(SetCell(s, ins.ra, ins.i, cb), ins.rb, ins.i, ca)
    [] ins.t = "gen" -> [s EXCEPT !.evs = Append(@, <<8, 0, ins.j, 0, 0, 0>>)]
    [] ins.t = "stream" -> [s EXCEPT !.evs = Append(@, <<ins.code, 0, ins.j, ins.j, ins.len, 0>>)]
    [] ins.t = "sethd" -> [s EXCEPT !.hd[ins.c].cap = ins.cap, !.hd[ins.c].st = ins.st]
    [] ins.t = "setsz" -> [s EXCEPT !.hd[ins.c].sz = ins.sz]
    [] ins.t = "setp"  -> [s EXCEPT !.hd[ins.c].p = ins.p, !.hd[ins.c].al = ins.al]
    [] ins.t = "ret"   -> [s EXCEPT !.ret = ins.x]
    [] OTHER -> s

\* result of running: [s |-> state, exc |-> "" | "injected" | "length_error"]
RECURSIVE RunSeq(_, _, _, _)
RECURSIVE RunUc(_, _, _, _)

RunOne(cfg, s, ins) ==
  CASE ins.t = "try" ->
         LET r == RunSeq(cfg, s, ins.body, 1) IN
         IF r.exc = "" THEN r
         ELSE LET h == RunSeq(cfg, r.s, ins.handler, 1) IN
              [s |-> h.s, exc |-> IF h.exc = "" THEN r.exc ELSE h.exc]      \* handlers rethrow; a throwing handler propagates its own
    [] ins.t = "uc" -> RunUc(cfg, s, ins.items, 1)
    [] ins.t = "erase_to" ->           \* erase_range (begin + from, end) on whatever buffer the container has by now
         LET h == s.hd[ins.c]
             Rn == IF h.st > 0 THEN 10 + h.st ELSE InlRegion(ins.c)
         IN RunSeq(cfg, s, <<ISetSz(ins.c, ins.from)>> \o [j \in 1..(h.sz - ins.from) |-> IDtor(Rn, ins.from + j - 1)], 1)
    [] ins.t = "wipe" ->               \* destructor of a completely constructed base: destroy everything, give the block back
         LET h == s.hd[ins.c]
             Rn == IF h.st > 0 THEN 10 + h.st ELSE InlRegion(ins.c)
         IN RunSeq(cfg, s, [j \in 1..h.sz |-> IDtor(Rn, j - 1)] \o (IF h.st > 0 THEN <<IDealloc(h.st, h.cap, h.al)>> ELSE <<>>), 1)
    [] ins.t = "dtor_to_size" ->       \* destroy [from, current size), size := from  (depends on the size reached so far)
         RunSeq(cfg, s, [j \in 1..(s.hd[ins.c].sz - ins.from) |-> IDtor(ins.R, ins.from + j - 1)] \o <<ISetSz(ins.c, ins.from)>>, 1)
    [] ins.t = "throw" -> [s |-> s, exc |-> ins.what]
    [] OTHER ->
         IF Fallible(cfg, ins) THEN
           LET c == s.cnt + 1 IN
           IF c = s.k1 \/ c = s.k2
             THEN [s |-> [s EXCEPT !.cnt = c, !.fk = IF c = s.k1 THEN <<FaultKind(ins), @[2]>> ELSE <<@[1], FaultKind(ins)>>], exc |-> "injected"]
             ELSE [s |-> Prim(cfg, [s EXCEPT !.cnt = c], ins), exc |-> ""]
         ELSE [s |-> Prim(cfg, s, ins), exc |-> ""]

RunSeq(cfg, s, prog, i) ==
  IF i > Len(prog) THEN [s |-> s, exc |-> ""]
  ELSE LET r == RunOne(cfg, s, prog[i]) IN
       IF r.exc # "" THEN r ELSE RunSeq(cfg, r.s, prog, i + 1)

\* default_uninitialized_copy / uninitialized_fill / value_construct: on a throw destroy what this loop built (forward), rethrow
RunUc(cfg, s, items, i) ==
  IF i > Len(items) THEN [s |-> s, exc |-> ""]
  ELSE LET r == RunOne(cfg, s, items[i]) IN
       IF r.exc = "" THEN RunUc(cfg, r.s, items, i + 1)
       ELSE LET built == SelectSeq(SubSeq(items, 1, i - 1), LAMBDA it : it.t = "ctor")
                undo == [j \in 1..Len(built) |-> IDtor(built[j].r, built[j].i)]
                h == RunSeq(cfg, r.s, undo, 1)
            IN [s |-> h.s, exc |-> r.exc]

Hd(x) == IF x.p THEN [p |-> TRUE, cap |-> x.cap, sz |-> Len(x.e), st |-> StN(x), al |-> x.al] ELSE [p |-> FALSE, cap |-> 0, sz |-> 0, st |-> 0, al |-> 0]

(***************************************************************************)
(* Script fragments                                                        *)
(***************************************************************************)
Seqq(lo, hi, F(_)) == [j \in 1..(hi - lo) |-> F(lo + j - 1)]            \* <<F(lo), ..., F(hi-1)>>
Down(hi, lo, F(_)) == [j \in 1..(hi - lo + 1) |-> F(hi - j + 1)]        \* <<F(hi), ..., F(lo)>>

UMove(cfg, kind, R, lo, hi, R2, dlo) == IUc(Seqq(lo, hi, LAMBDA i : ICtor(R2, dlo + (i - lo), kind, R, i, 0)))
UFill(R2, dlo, n, sr, si)            == IUc(Seqq(0, n, LAMBDA j : ICtor(R2, dlo + j, 1, sr, si, 0)))
UValue(R2, dlo, n)                   == IUc(Seqq(0, n, LAMBDA j : ICtor(R2, dlo + j, 0, 0, 0, 0)))
DestroyRange(R, lo, hi)              == Seqq(lo, hi, LAMBDA i : IDtor(R, i))
\* std::move (first, last, d_first): forward element-wise move assignment
MoveLeft(cfg, R, first, last, dfirst) == Seqq(first, last, LAMBDA i : IAsg(R, dfirst + (i - first), MoveKind(cfg), R, i))
\* std::move_backward (first, last, d_last)
MoveRight(cfg, R, first, last, dlast) == Down(last - 1, first, LAMBDA i : IAsg(R, dlast - (last - i), MoveKind(cfg), R, i))

GrowTo(cfg, cap, req) == IF cfg.max - cap <= cap THEN cfg.max ELSE Max(2 * cap, req)

\* reset_data (2660): destroy everything, give the old block back, adopt the new buffer
ResetData(c, x, R, id2, cap2, sz2) ==
  DestroyRange(R, 0, x.sz)
  \o (IF x.st > 0 THEN <<IDealloc(x.st, x.cap, x.al)>> ELSE <<>>)
  \o <<ISetHd(c, cap2, id2), ISetSz(c, sz2)>>

\* shift_into_uninitialized (3660): open a gap of n cells at pos (pos + n <= sz)
Shift(cfg, c, x, R, pos, n) ==
  <<UMove(cfg, MoveKind(cfg), R, x.sz - n, x.sz, R, x.sz), ISetSz(c, x.sz + n)>>
  \o MoveRight(cfg, R, pos, x.sz - n, x.sz)

(***************************************************************************)
(* Routines.  x = header of container c: [p, cap, sz, st, al]; R = region  *)
(* of its current buffer; id = fresh block id; src = <<kind, sr, si, v>>   *)
(***************************************************************************)
SrcCtor(R2, i, src) == ICtor(R2, i, src[1], src[2], src[3], src[4])

\* append_element (3672) -> emplace_into_current_end | emplace_into_reallocation_end (4172)
AppendElement(cfg, c, x, R, id, src, retIdx) ==
  IF x.sz < x.cap THEN <<SrcCtor(R, x.sz, src), ISetSz(c, x.sz + 1), IRet(retIdx)>>
  ELSE IF x.sz = cfg.max THEN <<IThrow("length_error")>>
  ELSE LET nc == GrowTo(cfg, x.cap, x.sz + 1)
           R2 == 10 + id
       IN <<IAlloc(id, nc, x.al),
            ITry(<<SrcCtor(R2, x.sz, src),
                   ITry(<<UMove(cfg, StrongKind(cfg), R, 0, x.sz, R2, 0)>>, <<IDtor(R2, x.sz)>>)>>,
                 <<IDealloc(id, nc, x.al)>>)>>
          \o ResetData(c, x, R, id, nc, x.sz + 1) \o <<IRet(retIdx)>>

\* emplace_at (3800) for pos < sz
EmplaceAt(cfg, c, x, R, id, pos, src, rvalueFast) ==
  IF pos = x.sz THEN AppendElement(cfg, c, x, R, id, src, pos)
  ELSE IF x.sz < x.cap THEN
    IF rvalueFast THEN      \* emplace_into_current (ptr, value_ty&&) for nothrow-move types (4134)
      Shift(cfg, c, x, R, pos, 1) \o <<IDtor(R, pos), SrcCtor(R, pos, src), IRet(pos)>>
    ELSE                    \* stack_temporary (4166): build first (aliasing), shift, move-assign in, destroy the temporary
      <<SrcCtor(3, 0, src),
        ITry(Shift(cfg, c, x, R, pos, 1) \o <<IAsg(R, pos, MoveKind(cfg), 3, 0)>>, <<IDtor(3, 0)>>),
        IDtor(3, 0), IRet(pos)>>
  ELSE IF x.sz = cfg.max THEN <<IThrow("length_error")>>
  ELSE LET nc == GrowTo(cfg, x.cap, x.sz + 1)          \* emplace_into_reallocation (4211)
           R2 == 10 + id
       IN <<IAlloc(id, nc, x.al),
            ITry(<<SrcCtor(R2, pos, src),
                   ITry(<<UMove(cfg, MoveKind(cfg), R, 0, pos, R2, 0)>>, <<IDtor(R2, pos)>>),
                   ITry(<<UMove(cfg, MoveKind(cfg), R, pos, x.sz, R2, pos + 1)>>, DestroyRange(R2, 0, pos + 1))>>,
                 <<IDealloc(id, nc, x.al)>>)>>
          \o ResetData(c, x, R, id, nc, x.sz + 1) \o <<IRet(pos)>>

\* append_copies (3686)
AppendCopies(cfg, c, x, R, id, n, sr, si) ==
  IF x.cap - x.sz < n THEN
    IF cfg.max - x.sz < n THEN <<IThrow("length_error")>>
    ELSE LET nc == GrowTo(cfg, x.cap, x.sz + n)
             R2 == 10 + id
         IN <<IAlloc(id, nc, x.al),
              ITry(<<UFill(R2, x.sz, n, sr, si),
                     ITry(<<UMove(cfg, MoveKind(cfg), R, 0, x.sz, R2, 0)>>, DestroyRange(R2, x.sz, x.sz + n))>>,
                   <<IDealloc(id, nc, x.al)>>)>>
            \o ResetData(c, x, R, id, nc, x.sz + n) \o <<IRet(x.sz)>>
  ELSE <<UFill(R, x.sz, n, sr, si), ISetSz(c, x.sz + n), IRet(x.sz)>>

\* insert_copies (3822)
InsertCopies(cfg, c, x, R, id, pos, n, sr, si) ==
  IF n = 0 THEN <<IRet(pos)>>
  ELSE IF pos = x.sz THEN
    (IF n = 1 THEN AppendElement(cfg, c, x, R, id, <<1, sr, si, 0>>, pos) ELSE AppendCopies(cfg, c, x, R, id, n, sr, si))
  ELSE IF x.cap - x.sz < n THEN
    IF cfg.max - x.sz < n THEN <<IThrow("length_error")>>
    ELSE LET nc == GrowTo(cfg, x.cap, x.sz + n)
             R2 == 10 + id
         IN <<IAlloc(id, nc, x.al),
              ITry(<<UFill(R2, pos, n, sr, si),
                     ITry(<<UMove(cfg, MoveKind(cfg), R, 0, pos, R2, 0)>>, DestroyRange(R2, pos, pos + n)),
                     ITry(<<UMove(cfg, MoveKind(cfg), R, pos, x.sz, R2, pos + n)>>, DestroyRange(R2, 0, pos + n))>>,
                   <<IDealloc(id, nc, x.al)>>)>>
            \o ResetData(c, x, R, id, nc, x.sz + n) \o <<IRet(pos)>>
  ELSE
    LET tail == x.sz - pos IN
    IF tail < n THEN
      \* part of the copies is constructed after end(), the tail is moved behind them, the rest is assigned (3876)
      LET nvt == n - tail IN
      <<UFill(R, x.sz, nvt, sr, si), ISetSz(c, x.sz + nvt),
        ITry(<<ICtor(3, 0, 1, sr, si, 0),
               ITry(<<UMove(cfg, MoveKind(cfg), R, pos, x.sz, R, x.sz + nvt), ISetSz(c, x.sz + n),
                      ITry(Seqq(0, tail, LAMBDA j : IAsg(R, pos + j, 1, 3, 0)),
                           \* roll back: move the tail home again, destroy the relocated tail (3919)
                           MoveLeft(cfg, R, x.sz + nvt, x.sz + n, pos) \o DestroyRange(R, x.sz + nvt, x.sz + n) \o <<ISetSz(c, x.sz + nvt)>>)>>,
                    <<IDtor(3, 0)>>),
               IDtor(3, 0)>>,
             \* destroy the elements constructed from the input (3930): [original_end, end_ptr ())
             <<[t |-> "dtor_to_size", c |-> c, R |-> R, from |-> x.sz]>>),
        IRet(pos)>>
    ELSE
      \* stack_temporary, shift, fill; roll back on failure (3952)
      <<ICtor(3, 0, 1, sr, si, 0),
        ITry(Shift(cfg, c, x, R, pos, n)
             \o <<ITry(Seqq(0, n, LAMBDA j : IAsg(R, pos + j, 1, 3, 0)),
                       MoveLeft(cfg, R, pos + n, x.sz + n, pos) \o DestroyRange(R, x.sz, x.sz + n) \o <<ISetSz(c, x.sz)>>)>>,
             <<IDtor(3, 0)>>),
        IDtor(3, 0), IRet(pos)>>

\* resize_with (4306)
ResizeWith(cfg, c, x, R, id, n, withVal, sr, si) ==
  LET fill(R2, lo, k) == IF withVal THEN UFill(R2, lo, k, sr, si) ELSE UValue(R2, lo, k)
      pre == IF n = 0 THEN <<ISetSz(c, 0)>> \o DestroyRange(R, 0, x.sz) ELSE <<>>       \* erase_all first (4311)
      sz0 == IF n = 0 THEN 0 ELSE x.sz
      x0  == [x EXCEPT !.sz = sz0]
  IN
  pre \o
  (IF x.cap < n THEN
     IF cfg.max < n THEN <<IThrow("length_error")>>
     ELSE LET nc == GrowTo(cfg, x.cap, n)
              R2 == 10 + id
          IN <<IAlloc(id, nc, x.al),
               ITry(<<fill(R2, sz0, n - sz0),
                      ITry(<<UMove(cfg, StrongKind(cfg), R, 0, sz0, R2, 0)>>, DestroyRange(R2, sz0, n))>>,
                    <<IDealloc(id, nc, x.al)>>)>>
             \o ResetData(c, x0, R, id, nc, n)
   ELSE IF sz0 < n THEN <<fill(R, sz0, n - sz0), ISetSz(c, n)>>
   ELSE IF n < sz0 THEN <<ISetSz(c, n)>> \o DestroyRange(R, n, sz0)          \* erase_range to the end: decrease_size, then destroy
   ELSE <<>>)

\* request_capacity (4360)
Reserve(cfg, c, x, R, id, n) ==
  IF n <= x.cap THEN <<>>
  ELSE IF cfg.max < n THEN <<IThrow("length_error")>>
  ELSE LET nc == GrowTo(cfg, x.cap, n)
           R2 == 10 + id
       IN <<IAlloc(id, nc, x.al),
            ITry(<<UMove(cfg, StrongKind(cfg), R, 0, x.sz, R2, 0)>>, <<IDealloc(id, nc, x.al)>>)>>
          \o DestroyRange(R, 0, x.sz)
          \o (IF x.st > 0 THEN <<IDealloc(x.st, x.cap, x.al)>> ELSE <<>>)
          \o <<ISetHd(c, nc, id)>>

\* shrink_to_size (4262, with the strong-guarantee fix)
Shrink(cfg, c, x, R, id, N, inlR) ==
  IF x.st <= 0 \/ x.sz = x.cap THEN <<>>
  ELSE IF N < x.sz THEN
    <<IAlloc(id, x.sz, x.al),
      ITry(<<UMove(cfg, StrongKind(cfg), R, 0, x.sz, 10 + id, 0)>>, <<IDealloc(id, x.sz, x.al)>>)>>
    \o DestroyRange(R, 0, x.sz) \o <<IDealloc(x.st, x.cap, x.al), ISetHd(c, x.sz, id)>>
  ELSE
    <<UMove(cfg, StrongKind(cfg), R, 0, x.sz, inlR, 0)>>
    \o DestroyRange(R, 0, x.sz) \o <<IDealloc(x.st, x.cap, x.al), ISetHd(c, N, 0)>>

\* assign_with_copies (3533)
AssignCopies(cfg, c, x, R, id, n, sr, si) ==
  IF x.cap < n THEN
    IF cfg.max < n THEN <<IThrow("length_error")>>
    ELSE LET nc == GrowTo(cfg, x.cap, n)
             R2 == 10 + id
         IN <<IAlloc(id, nc, x.al), ITry(<<UFill(R2, 0, n, sr, si)>>, <<IDealloc(id, nc, x.al)>>)>>
            \o ResetData(c, x, R, id, nc, n)
  ELSE IF x.sz < n THEN
    Seqq(0, x.sz, LAMBDA i : IAsg(R, i, 1, sr, si)) \o <<UFill(R, x.sz, n - x.sz, sr, si), ISetSz(c, n)>>
  ELSE
    Seqq(0, n, LAMBDA i : IAsg(R, i, 1, sr, si))
    \o (IF n < x.sz THEN <<ISetSz(c, n)>> \o DestroyRange(R, n, x.sz) ELSE <<>>)

\* erase_at / erase_range / erase_last / erase_all (4384-4431)
EraseRangeImpl(cfg, c, x, R, f, l) ==
  IF f = l THEN <<IRet(f)>>
  ELSE MoveLeft(cfg, R, l, x.sz, f) \o <<ISetSz(c, x.sz - (l - f))>> \o DestroyRange(R, x.sz - (l - f), x.sz) \o <<IRet(f)>>

\* ---- source ranges: element j of the caller's range is the external cell <<4, j>>.  rk = iterator kind of the driver:
\* 1 forward, 2 bidirectional, 3 random access (instrumented: * and ++ are fallible steps), 4 pointer,
\* 5 move_iterator<pointer> (elements are moved from), 6 iterators of another container,
\* 7 forward (instrumented) over construct-only sources: the element is built by its explicit converting constructor
\*   (event kind 3, value cfg.srcv[j + 1] -- Script extends cfg with the call's fresh values) and can not be assigned from
Ticks(rk)     == rk \in {1, 2, 3, 7}
Conv(rk)      == rk = 7
CtorKind(cfg, rk) == IF rk = 5 THEN MoveKind(cfg) ELSE 1
\* std::distance / std::advance walk forward and bidirectional iterators one step at a time
StepTicks(rk, n) == IF rk \in {1, 2, 7} THEN [j \in 1..n |-> ITick(9)] ELSE <<>>
RangeCtor(cfg, rk, R2, i, j) == IF Conv(rk) THEN ICtor(R2, i, 3, 0, 0, cfg.srcv[j + 1]) ELSE ICtor(R2, i, 1, 4, j, 0)

\* default_uninitialized_copy (2127): construct (d, *first); ++d; ++first
\* (sr = region the source elements live in: 4 = the caller's range; a buffer region for move_iterators over a temporary)
UCopyFrom(cfg, rk, sr, R2, dlo, lo, hi) ==
  IUc(Seqq(lo, hi, LAMBDA j : ICtor(R2, dlo + (j - lo), CtorKind(cfg, rk), sr, j, 0)))
CopyAsgFrom(cfg, rk, sr, R, dlo, lo, hi) == Seqq(lo, hi, LAMBDA j : IAsg(R, dlo + (j - lo), CtorKind(cfg, rk), sr, j))

UCopyExt(cfg, rk, R2, dlo, lo, hi) ==
  IUc(IF Ticks(rk)
        THEN [k \in 1..(3 * (hi - lo)) |->
                LET j == lo + (k - 1) \div 3 IN
                CASE (k - 1) % 3 = 0 -> ITick(8) [] (k - 1) % 3 = 1 -> RangeCtor(cfg, rk, R2, dlo + (j - lo), j) [] OTHER -> ITick(9)]
        ELSE Seqq(lo, hi, LAMBDA j : ICtor(R2, dlo + (j - lo), CtorKind(cfg, rk), 4, j, 0)))

\* std::copy / std::copy_n onto live elements: *d = *first; ++first; ++d
CopyAsg(cfg, rk, R, dlo, lo, hi) ==
  IF Ticks(rk)
    THEN [k \in 1..(3 * (hi - lo)) |->
            LET j == lo + (k - 1) \div 3 IN
            CASE (k - 1) % 3 = 0 -> ITick(8) [] (k - 1) % 3 = 1 -> IAsg(R, dlo + (j - lo), 1, 4, j) [] OTHER -> ITick(9)]
    ELSE Seqq(lo, hi, LAMBDA j : IAsg(R, dlo + (j - lo), CtorKind(cfg, rk), 4, j))

\* assign_with_range, forward overload (3575); value type not assignable from *first (3613): erase_all, then append_range
AssignRange(cfg, c, x, R, id, n, rk) ==
  StepTicks(rk, n) \o
  (IF x.cap < n THEN
    IF cfg.max < n THEN <<IThrow("length_error")>>
    ELSE LET nc == GrowTo(cfg, x.cap, n)
             R2 == 10 + id
         IN <<IAlloc(id, nc, x.al), ITry(<<UCopyExt(cfg, rk, R2, 0, 0, n)>>, <<IDealloc(id, nc, x.al)>>)>>
            \o ResetData(c, x, R, id, nc, n)
  ELSE IF x.sz < n THEN
    CopyAsg(cfg, rk, R, 0, 0, x.sz) \o <<UCopyExt(cfg, rk, R, x.sz, x.sz, n), ISetSz(c, n)>>
  ELSE
    CopyAsg(cfg, rk, R, 0, 0, n)
    \o (IF n < x.sz THEN <<ISetSz(c, n)>> \o DestroyRange(R, n, x.sz) ELSE <<>>))

\* append_range, forward overload (3763); kind = how the old elements are relocated
AppendRange(cfg, c, x, R, id, n, kind, rk) ==
  StepTicks(rk, n) \o
  (IF x.cap - x.sz < n THEN
    IF cfg.max - x.sz < n THEN <<IThrow("length_error")>>
    ELSE LET nc == GrowTo(cfg, x.cap, x.sz + n)
             R2 == 10 + id
         IN <<IAlloc(id, nc, x.al),
              ITry(<<UCopyExt(cfg, rk, R2, x.sz, 0, n),
                     ITry(<<UMove(cfg, kind, R, 0, x.sz, R2, 0)>>, DestroyRange(R2, x.sz, x.sz + n))>>,
                   <<IDealloc(id, nc, x.al)>>)>>
            \o ResetData(c, x, R, id, nc, x.sz + n) \o <<IRet(x.sz)>>
  ELSE <<UCopyExt(cfg, rk, R, x.sz, 0, n), ISetSz(c, x.sz + n), IRet(x.sz)>>)

\* assign_with_range when the value type is not assignable from *first, forward overload: the length is measured and
\* checked against max_size() first (so that a length_error has no effect), then erase_all, then append_range
\* (which measures the range again)
AssignConv(cfg, c, x, R, id, n, rk) ==
  StepTicks(rk, n) \o
  (IF cfg.max < n THEN <<IThrow("length_error")>>
   ELSE <<ISetSz(c, 0)>> \o DestroyRange(R, 0, x.sz)
        \o AppendRange(cfg, c, [x EXCEPT !.sz = 0], R, id, n, MoveKind(cfg), rk) \o <<IRet(-1)>>)

\* insert_range_helper (3990), pos < sz, n > 0
InsertRangeHelperFrom(cfg, c, x, R, id, pos, n, rk, sr) ==
  StepTicks(rk, n) \o
  (IF x.cap - x.sz < n THEN
    IF cfg.max - x.sz < n THEN <<IThrow("length_error")>>
    ELSE LET nc == GrowTo(cfg, x.cap, x.sz + n)
             R2 == 10 + id
         IN <<IAlloc(id, nc, x.al),
              ITry(<<(IF sr = 4 THEN UCopyExt(cfg, rk, R2, pos, 0, n) ELSE UCopyFrom(cfg, rk, sr, R2, pos, 0, n)),
                     ITry(<<UMove(cfg, MoveKind(cfg), R, 0, pos, R2, 0)>>, DestroyRange(R2, pos, pos + n)),
                     ITry(<<UMove(cfg, MoveKind(cfg), R, pos, x.sz, R2, pos + n)>>, DestroyRange(R2, 0, pos + n))>>,
                   <<IDealloc(id, nc, x.al)>>)>>
            \o ResetData(c, x, R, id, nc, x.sz + n) \o <<IRet(pos)>>
  ELSE
    LET tail == x.sz - pos IN
    IF tail < n THEN
      StepTicks(rk, tail)                     \* pivot = unchecked_next (first, tail_size)
      \o <<(IF sr = 4 THEN UCopyExt(cfg, rk, R, x.sz, tail, n) ELSE UCopyFrom(cfg, rk, sr, R, x.sz, tail, n)), ISetSz(c, x.sz + n - tail),
        ITry(<<UMove(cfg, MoveKind(cfg), R, pos, x.sz, R, x.sz + n - tail), ISetSz(c, x.sz + n),
               ITry((IF sr = 4 THEN CopyAsg(cfg, rk, R, pos, 0, tail) ELSE CopyAsgFrom(cfg, rk, sr, R, pos, 0, tail)),
                    MoveLeft(cfg, R, x.sz + n - tail, x.sz + n, pos) \o DestroyRange(R, x.sz + n - tail, x.sz + n)
                    \o <<ISetSz(c, x.sz + n - tail)>>)>>,
             <<[t |-> "dtor_to_size", c |-> c, R |-> R, from |-> x.sz]>>),
        IRet(pos)>>
    ELSE
      Shift(cfg, c, x, R, pos, n)
      \o <<ITry((IF sr = 4 THEN CopyAsg(cfg, rk, R, pos, 0, n) ELSE CopyAsgFrom(cfg, rk, sr, R, pos, 0, n)),
                MoveLeft(cfg, R, pos + n, x.sz + n, pos) \o DestroyRange(R, x.sz, x.sz + n) \o <<ISetSz(c, x.sz)>>),
           IRet(pos)>>)

InsertRangeHelper(cfg, c, x, R, id, pos, n, rk) == InsertRangeHelperFrom(cfg, c, x, R, id, pos, n, rk, 4)

\* append_range, input overloads (3728 strong / 3748 plain): one append_element per position; the header evolves
RECURSIVE AppendLoop(_, _, _, _, _, _, _, _, _)
AppendLoop(cfg, c, x, id, j, n, len, strong, orig) ==
  IF j = n THEN <<>>
  ELSE LET R  == IF x.st > 0 THEN 10 + x.st ELSE InlRegion(c)
           realloc == x.sz = x.cap
           x2 == IF realloc THEN [x EXCEPT !.sz = @ + 1, !.cap = GrowTo(cfg, x.cap, x.sz + 1), !.st = id] ELSE [x EXCEPT !.sz = @ + 1]
           src  == IF "srcv" \in DOMAIN cfg THEN <<3, 0, 0, cfg.srcv[j + 1]>> ELSE <<1, 4, j, 0>>     \* construct-only sources (kind 8)
           elem == <<IStream(6, j, len)>> \o AppendElement(cfg, c, x, R, id, src, -1)
       IN (IF strong THEN <<ITry(elem, <<[t |-> "erase_to", c |-> c, from |-> orig]>>)>> ELSE elem)
          \o <<IStream(7, j, len)>>
          \o AppendLoop(cfg, c, x2, IF realloc THEN id + 1 ELSE id, j + 1, n, len, strong, orig)

\* header of a container after n single appends (capacity policy only)
RECURSIVE AfterAppends(_, _, _, _)
AfterAppends(cfg, x, id, n) ==
  IF n = 0 THEN [x |-> x, id |-> id]
  ELSE IF x.sz = x.cap THEN AfterAppends(cfg, [x EXCEPT !.sz = @ + 1, !.cap = GrowTo(cfg, x.cap, x.sz + 1), !.st = id], id + 1, n - 1)
  ELSE AfterAppends(cfg, [x EXCEPT !.sz = @ + 1], id, n - 1)

\* insert_range, input overload (4085), pos < sz: the range is first collected in a temporary container (same allocator),
\* which is then inserted through move_iterators and destroyed -- also when anything after its construction throws
InsertInputMid(cfg, c, x, R, id, pos, n, N) ==
  LET t0 == [p |-> TRUE, cap |-> N, sz |-> 0, st |-> 0, al |-> x.al]
      fin == AfterAppends(cfg, t0, id, n)
      Rt  == IF fin.x.st > 0 THEN 10 + fin.x.st ELSE 3
  IN <<ISetP("T", TRUE, x.al), ISetHd("T", N, 0), ISetSz("T", 0),
       ITry(AppendLoop(cfg, "T", t0, id, 0, n, n, FALSE, 0)
            \o InsertRangeHelperFrom(cfg, c, x, R, fin.id, pos, n, 5, Rt),
            <<[t |-> "wipe", c |-> "T"], ISetP("T", FALSE, 0)>>),
       [t |-> "wipe", c |-> "T"], ISetP("T", FALSE, 0)>>

\* assign_with_range, input overload for assignable elements (3552)
AssignInput(cfg, c, x, R, id, n) ==
  LET m == IF x.sz < n THEN x.sz ELSE n
      over == [k \in 1..(3 * m) |->
                 LET j == (k - 1) \div 3 IN
                 CASE (k - 1) % 3 = 0 -> IStream(6, j, n) [] (k - 1) % 3 = 1 -> IAsg(R, j, 1, 4, j) [] OTHER -> IStream(7, j, n)]
  IN over \o (IF n <= x.sz THEN (IF n < x.sz THEN <<ISetSz(c, n)>> \o DestroyRange(R, n, x.sz) ELSE <<>>)
              ELSE AppendLoop(cfg, c, x, id, x.sz, n, n, FALSE, 0))

\* insert_range, forward overload (4103) behind the public insert (which returns early for an empty range)
InsertRange(cfg, c, x, R, id, pos, n, rk) ==
  IF n = 0 THEN <<IRet(pos)>>
  ELSE IF pos # x.sz THEN InsertRangeHelper(cfg, c, x, R, id, pos, n, rk)
  ELSE (IF Ticks(rk) THEN <<ITick(9)>> ELSE <<>>)   \* unchecked_next (first) == last: std::advance by the CONSTANT 1 is ++it
                                                     \* in libstdc++ even for random access iterators (__builtin_constant_p)
       \o (IF n = 1 THEN (IF Ticks(rk) THEN <<ITick(8)>> ELSE <<>>) \o AppendElement(cfg, c, x, R, id, <<CtorKind(cfg, rk), 4, 0, 0>>, pos)
           ELSE AppendRange(cfg, c, x, R, id, n, MoveKind(cfg), rk))

(***************************************************************************)
(* Two-container routines.  d = destination (this), s = source (other);    *)
(* xd / xs their headers, Rd / Rs their buffers, Nd / Ns inline capacities *)
(***************************************************************************)
SetDefault(s, Ns) == <<ISetHd(s, Ns, 0), ISetSz(s, 0)>>                      \* set_default (2694)
Adopt(d, xs) == <<ISetHd(d, xs.cap, xs.st), ISetSz(d, xs.sz)>>
\* move_allocation_pointer (2980): reset_data to the source's buffer, then the source becomes default
StealAssign(d, s, xd, xs, Rd, Ns) ==
  DestroyRange(Rd, 0, xd.sz) \o (IF xd.st > 0 THEN <<IDealloc(xd.st, xd.cap, xd.al)>> ELSE <<>>) \o Adopt(d, xs) \o SetDefault(s, Ns)

\* overwrite [0, min) by assignment from the source, then construct the rest / destroy the surplus, no reallocation
InPlaceFrom(cfg, d, xd, xs, Rd, Rs, akind, ckind) ==
  IF xd.sz < xs.sz THEN
    Seqq(0, xd.sz, LAMBDA i : IAsg(Rd, i, akind, Rs, i)) \o <<UMove(cfg, ckind, Rs, xd.sz, xs.sz, Rd, xd.sz)>>
  ELSE
    Seqq(0, xs.sz, LAMBDA i : IAsg(Rd, i, akind, Rs, i)) \o DestroyRange(Rd, xs.sz, xd.sz)

\* copy constructors (3268)
CtorCopy(cfg, d, xs, Rs, id, al, Nd) ==
  LET n == xs.sz IN
  (IF Nd < n THEN <<IAlloc(id, n, al), ITry(<<UMove(cfg, 1, Rs, 0, n, 10 + id, 0)>>, <<IDealloc(id, n, al)>>),
                    ISetP(d, TRUE, al), ISetHd(d, n, id)>>
   ELSE <<UMove(cfg, 1, Rs, 0, n, InlRegion(d), 0), ISetP(d, TRUE, al), ISetHd(d, Nd, 0)>>)
  \o <<ISetSz(d, n)>>

\* move constructors: move_initialize (3189-3246) and the allocator-extended forms (3318-3365)
CtorMove(cfg, d, s, xs, Rs, id, aid, Nd, Ns) ==
  LET al == IF cfg.isStd THEN 0 ELSE IF aid # 0 /\ ~cfg.ae THEN aid ELSE xs.al
      n  == xs.sz
      mk == MoveKind(cfg)
      elementwise(alBlk) ==
        (IF Nd < n THEN <<IAlloc(id, n, alBlk), ITry(<<UMove(cfg, mk, Rs, 0, n, 10 + id, 0)>>, <<IDealloc(id, n, alBlk)>>),
                          ISetP(d, TRUE, al), ISetHd(d, n, id)>>
         ELSE <<UMove(cfg, mk, Rs, 0, n, InlRegion(d), 0), ISetP(d, TRUE, al), ISetHd(d, Nd, 0)>>) \o <<ISetSz(d, n)>>
      steal == <<ISetP(d, TRUE, al)>> \o Adopt(d, xs) \o SetDefault(s, Ns)
  IN
  IF aid # 0 /\ ~cfg.isStd /\ ~cfg.ae /\ aid # xs.al THEN elementwise(al)
  ELSE IF Nd = 0 /\ Ns = 0 THEN steal
  ELSE IF Ns <= Nd THEN (IF Nd < xs.cap THEN steal ELSE elementwise(al))
  ELSE IF xs.st > 0 THEN steal ELSE elementwise(xs.al)

\* copy_assign / copy_assign_default (2840-2960)
AssignCopy(cfg, d, xd, xs, Rd, Rs, id, Nd) ==
  LET n  == xs.sz
      special == cfg.pocca /\ ~cfg.isStd /\ ~cfg.ae /\ xd.al # xs.al
      alAfter == IF cfg.pocca /\ ~cfg.isStd THEN xs.al ELSE xd.al
      setal == <<ISetP(d, TRUE, alAfter)>>
  IN
  IF special THEN
    IF Nd < n THEN
      <<IAlloc(id, n, xs.al), ITry(<<UMove(cfg, 1, Rs, 0, n, 10 + id, 0)>>, <<IDealloc(id, n, xs.al)>>)>>
      \o ResetData(d, xd, Rd, id, n, n) \o setal
    ELSE IF xd.st > 0 THEN
      <<UMove(cfg, 1, Rs, 0, n, InlRegion(d), 0)>> \o DestroyRange(Rd, 0, xd.sz)
      \o <<IDealloc(xd.st, xd.cap, xd.al), ISetHd(d, Nd, 0), ISetSz(d, n)>> \o setal
    ELSE InPlaceFrom(cfg, d, xd, xs, Rd, Rs, 1, 1) \o <<ISetSz(d, n)>> \o setal
  ELSE
    (IF xd.cap < n THEN
       LET nc == GrowTo(cfg, xd.cap, n) IN
       <<IAlloc(id, nc, xd.al), ITry(<<UMove(cfg, 1, Rs, 0, n, 10 + id, 0)>>, <<IDealloc(id, nc, xd.al)>>)>>
       \o ResetData(d, xd, Rd, id, nc, n)
     ELSE InPlaceFrom(cfg, d, xd, xs, Rd, Rs, 1, 1) \o <<ISetSz(d, n)>>)
    \o setal

\* move_assign dispatch (3168-3188), move_assign_default (2988-3113), move_assign_unequal_no_propagate (3118)
AssignMove(cfg, d, s, xd, xs, Rd, Rs, id, Nd, Ns) ==
  LET n  == xs.sz
      mk == MoveKind(cfg)
      movable == cfg.isStd \/ cfg.pocma \/ cfg.ae \/ xd.al = xs.al
      alAfter == IF cfg.pocma /\ ~cfg.isStd THEN xs.al ELSE xd.al
      setal == <<ISetP(d, TRUE, alAfter)>>
      steal == StealAssign(d, s, xd, xs, Rd, Ns)
      inplace == InPlaceFrom(cfg, d, xd, xs, Rd, Rs, mk, mk) \o <<ISetSz(d, n)>>
      realloc(nc, alBlk) == <<IAlloc(id, nc, alBlk), ITry(<<UMove(cfg, mk, Rs, 0, n, 10 + id, 0)>>, <<IDealloc(id, nc, alBlk)>>)>>
                            \o ResetData(d, xd, Rd, id, nc, n)
  IN
  IF movable THEN
    (IF Nd = 0 /\ Ns = 0 THEN steal
     ELSE IF Ns <= Nd THEN
       (IF Nd < xs.cap THEN steal
        ELSE IF Nd < xd.cap THEN
          <<UMove(cfg, mk, Rs, 0, n, InlRegion(d), 0)>> \o DestroyRange(Rd, 0, xd.sz)
          \o <<IDealloc(xd.st, xd.cap, xd.al), ISetHd(d, Nd, 0), ISetSz(d, n)>>
        ELSE inplace)
     ELSE
       (IF xs.st > 0 THEN steal
        ELSE IF xd.cap < n \/ (xd.st > 0 /\ ~AllocEq(cfg, xd.al, xs.al)) THEN
          realloc(IF xd.cap < n THEN GrowTo(cfg, xd.cap, n) ELSE xd.cap, xs.al)
        ELSE inplace))
    \o setal
  ELSE
    (IF xd.cap < n THEN realloc(GrowTo(cfg, xd.cap, n), xd.al) ELSE inplace)

\* std::swap of two elements through a stack temporary
SwapCells(cfg, Ra, Rb, i) ==
  <<ICtor(3, 0, MoveKind(cfg), Ra, i, 0),
    ITry(<<IAsg(Ra, i, MoveKind(cfg), Rb, i), IAsg(Rb, i, MoveKind(cfg), 3, 0)>>, <<IDtor(3, 0)>>),
    IDtor(3, 0)>>
\* `using std::swap; swap (a, b)` for n element pairs: the element type's own swap when it has one (cfg.adlswap)
SwapRun(cfg, Ra, Rb, n) ==
  IF cfg.adlswap THEN [k \in 1..n |-> [t |-> "uswap", ra |-> Ra, rb |-> Rb, i |-> k - 1]]
  ELSE [k \in 1..(3 * n) |-> SwapCells(cfg, Ra, Rb, (k - 1) \div 3)[((k - 1) % 3) + 1]]

\* swap_elements (4431): a = the shorter container
SwapElements(cfg, a, b, xa, xb, Ra, Rb) ==
  LET body == SwapRun(cfg, Ra, Rb, xa.sz) IN
  body \o <<UMove(cfg, MoveKind(cfg), Rb, xa.sz, xb.sz, Ra, xa.sz)>> \o DestroyRange(Rb, xa.sz, xb.sz)
  \o <<ISetSz(a, xb.sz), ISetSz(b, xa.sz)>>

\* swap dispatch (4549-4600), swap_default (4453), swap_unequal_no_propagate (4500)
SwapImpl(cfg, d, s, xd, xs, Rd, Rs, id, N) ==
  IF d = s THEN
    \* self: heap -> swap_allocation with itself; inline -> every element is swapped with itself
    (IF xd.st > 0 \/ (N = 0 /\ (cfg.isStd \/ cfg.pocs \/ cfg.ae)) THEN <<>>
     ELSE SwapRun(cfg, Rd, Rd, xd.sz))
  ELSE
  LET lo == IF xd.cap < xs.cap THEN d ELSE s
      hi == IF lo = d THEN s ELSE d
      xl == IF lo = d THEN xd ELSE xs
      xh == IF lo = d THEN xs ELSE xd
      Rl == IF lo = d THEN Rd ELSE Rs
      Rh == IF lo = d THEN Rs ELSE Rd
      swappable == cfg.isStd \/ cfg.pocs \/ cfg.ae
      exch == <<ISetHd(lo, xh.cap, xh.st), ISetSz(lo, xh.sz), ISetHd(hi, xl.cap, xl.st), ISetSz(hi, xl.sz)>>
      elems == IF xl.sz < xh.sz THEN SwapElements(cfg, lo, hi, xl, xh, Rl, Rh) ELSE SwapElements(cfg, hi, lo, xh, xl, Rh, Rl)
      als == IF cfg.pocs /\ ~cfg.isStd THEN <<ISetP(lo, TRUE, xh.al), ISetP(hi, TRUE, xl.al)>> ELSE <<>>
  IN
  IF swappable \/ xd.al = xs.al THEN
    (IF N = 0 /\ swappable THEN exch
     ELSE IF xl.st > 0 THEN exch
     ELSE IF xh.st > 0 THEN
       <<UMove(cfg, MoveKind(cfg), Rl, 0, xl.sz, InlRegion(hi), 0)>> \o DestroyRange(Rl, 0, xl.sz)
       \o <<ISetHd(lo, xh.cap, xh.st), ISetHd(hi, N, 0), ISetSz(lo, xh.sz), ISetSz(hi, xl.sz)>>
     ELSE elems)
    \o als
  ELSE
    IF xl.cap < xh.sz THEN
      LET nc == GrowTo(cfg, xl.cap, xh.sz) IN
      <<IAlloc(id, nc, xl.al),
        ITry(<<UMove(cfg, MoveKind(cfg), Rh, 0, xh.sz, 10 + id, 0),
               ITry(Seqq(0, xl.sz, LAMBDA i : IAsg(Rh, i, MoveKind(cfg), Rl, i)) \o DestroyRange(Rh, xl.sz, xh.sz),
                    DestroyRange(10 + id, 0, xh.sz))>>,
             <<IDealloc(id, nc, xl.al)>>)>>
      \o DestroyRange(Rl, 0, xl.sz) \o (IF xl.st > 0 THEN <<IDealloc(xl.st, xl.cap, xl.al)>> ELSE <<>>)
      \o <<ISetHd(lo, nc, id), ISetSz(lo, xh.sz), ISetSz(hi, xl.sz)>>
    ELSE elems

\* append (const small_vector&) / append (small_vector&&) (5815-5840): a forward range over the source's cells
AppendFrom(cfg, d, s, xd, xs, Rd, Rs, id, kind, clearSrc) ==
  LET n == xs.sz IN
  (IF xd.cap - xd.sz < n THEN
     IF cfg.max - xd.sz < n THEN <<IThrow("length_error")>>
     ELSE LET nc == GrowTo(cfg, xd.cap, xd.sz + n)
              R2 == 10 + id
          IN <<IAlloc(id, nc, xd.al),
               ITry(<<UMove(cfg, kind, Rs, 0, n, R2, xd.sz),
                      ITry(<<UMove(cfg, StrongKind(cfg), Rd, 0, xd.sz, R2, 0)>>, DestroyRange(R2, xd.sz, xd.sz + n))>>,
                    <<IDealloc(id, nc, xd.al)>>)>>
             \o ResetData(d, xd, Rd, id, nc, xd.sz + n)
   ELSE <<UMove(cfg, kind, Rs, 0, n, Rd, xd.sz), ISetSz(d, xd.sz + n)>>)
  \o (IF clearSrc THEN <<ISetSz(s, 0)>> \o DestroyRange(Rs, 0, n) ELSE <<>>)

Script2(cfg, pre, ln, id) ==
  LET d  == ln.c
      s  == ln.s
      xd == Hd(pre[d])
      xs == Hd(pre[s])
      Rd == IF xd.st > 0 THEN 10 + xd.st ELSE InlRegion(d)
      Rs == IF xs.st > 0 THEN 10 + xs.st ELSE InlRegion(s)
      Nd == NOf(cfg, d)
      Ns == NOf(cfg, s)
      a  == ln.a
      op == ln.op
  IN
  CASE op = "ctor_copy" ->
         CtorCopy(cfg, d, xs, Rs, id, IF cfg.isStd THEN 0 ELSE IF a[1] # 0 THEN a[1] ELSE IF cfg.soccc = 1 THEN xs.al + 50 ELSE xs.al, Nd)
    [] op = "ctor_move" -> CtorMove(cfg, d, s, xs, Rs, id, a[1], Nd, Ns)
    [] op \in {"assign_copy", "assign_copy_f"} -> IF d = s THEN <<>> ELSE AssignCopy(cfg, d, xd, xs, Rd, Rs, id, Nd)
    [] op \in {"assign_move", "assign_move_f"} -> IF d = s THEN <<>> ELSE AssignMove(cfg, d, s, xd, xs, Rd, Rs, id, Nd, Ns)
    [] op = "swap" -> SwapImpl(cfg, d, s, xd, xs, Rd, Rs, id, Nd)
    [] op = "append_copy" -> AppendFrom(cfg, d, s, xd, xs, Rd, Rs, id, 1, FALSE)
    [] op = "append_move" -> AppendFrom(cfg, d, s, xd, xs, Rd, Rs, id, StrongKind(cfg), TRUE)
    [] op = "cmp" -> <<>>

(***************************************************************************)
(* Executing a call: builds the script, runs it, assembles a trace line    *)
(***************************************************************************)
MemOfState(cfg, pre) ==
  LET cells(x, n) == [j \in 1..n |-> IF x.p /\ j <= Len(x.e) THEN Live(x.e[j][1], x.e[j][2]) ELSE Raw]
      inl == (1 :> (IF pre.A.p /\ ~Heap(pre.A) THEN cells(pre.A, cfg.na) ELSE [j \in 1..cfg.na |-> Raw]))
             @@ (2 :> (IF pre.B.p /\ ~Heap(pre.B) THEN cells(pre.B, cfg.nb) ELSE [j \in 1..cfg.nb |-> Raw]))
      hp(c) == IF pre[c].p /\ Heap(pre[c]) THEN ((10 + pre[c].st) :> cells(pre[c], pre[c].cap)) ELSE <<>>
  IN inl @@ hp("A") @@ hp("B")

Script(cfg, pre, ln, id) ==
  LET c  == ln.c
      x  == Hd(pre[c])
      R  == IF x.st > 0 THEN 10 + x.st ELSE InlRegion(c)
      a  == ln.a
      op == ln.op
      N  == NOf(cfg, c)
      arg(al) == IF al >= 0 THEN <<1, R, al, 0>> ELSE <<1, 4, 100, 0>>       \* copy from an element of the container | from the caller's value
      cfgv == [srcv |-> ln.v] @@ cfg                                         \* the call's fresh values, for construct-only sources
  IN
  CASE op = "push_back"      -> AppendElement(cfg, c, x, R, id, arg(a[1]), -1)
    [] op = "emplace_back_c" -> AppendElement(cfg, c, x, R, id, arg(a[1]), x.sz)
    [] op = "push_back_m"    -> AppendElement(cfg, c, x, R, id, <<MoveKind(cfg), 4, 100, 0>>, -1)
    [] op = "emplace_back_v" -> AppendElement(cfg, c, x, R, id, <<3, 0, 0, ln.v[1]>>, x.sz)
    [] op \in {"insert", "emplace_c"} -> EmplaceAt(cfg, c, x, R, id, a[1], arg(a[2]), FALSE)
    [] op = "insert_m"       -> EmplaceAt(cfg, c, x, R, id, a[1], <<MoveKind(cfg), 4, 100, 0>>, cfg.nothrowMoveCtor /\ cfg.hasMove)
    [] op = "emplace_v"      -> EmplaceAt(cfg, c, x, R, id, a[1], <<3, 0, 0, ln.v[1]>>, FALSE)
    [] op = "insert_n"       -> LET s == arg(a[3]) IN InsertCopies(cfg, c, x, R, id, a[1], a[2], s[2], s[3])
    [] op = "resize"         -> ResizeWith(cfg, c, x, R, id, a[1], FALSE, 0, 0)
    [] op = "resize_v"       -> LET s == arg(a[2]) IN ResizeWith(cfg, c, x, R, id, a[1], TRUE, s[2], s[3])
    [] op = "reserve"        -> Reserve(cfg, c, x, R, id, a[1])
    [] op = "shrink"         -> Shrink(cfg, c, x, R, id, N, InlRegion(c))
    [] op = "assign_n"       -> AssignCopies(cfg, c, x, R, id, a[1], 4, 100)
    [] op = "assign_rng"     -> IF a[1] = 0 THEN AssignInput(cfg, c, x, R, id, a[2])
                                \* not assignable from *first, input overload (3613): erase_all, then append element by element
                                ELSE IF a[1] = 8 THEN <<ISetSz(c, 0)>> \o DestroyRange(R, 0, x.sz)
                                                      \o AppendLoop(cfgv, c, [x EXCEPT !.sz = 0], id, 0, a[2], a[2], FALSE, 0)
                                ELSE IF Conv(a[1]) THEN AssignConv(cfgv, c, x, R, id, a[2], a[1])
                                ELSE AssignRange(cfg, c, x, R, id, a[2], a[1])
    [] op \in {"assign_il", "opeq_il"} -> AssignRange(cfg, c, x, R, id, a[1], 4)
    [] op = "append_rng"     -> (IF a[1] \in {0, 8} THEN AppendLoop(IF a[1] = 8 THEN cfgv ELSE cfg, c, x, id, 0, a[2], a[2], TRUE, x.sz)
                                 ELSE AppendRange(cfgv, c, x, R, id, a[2], StrongKind(cfg), a[1])) \o <<IRet(-1)>>      \* append returns *this
    [] op = "append_il"      -> AppendRange(cfg, c, x, R, id, a[1], StrongKind(cfg), 4) \o <<IRet(-1)>>
    [] op = "insert_rng" /\ a[2] \in {0, 8} ->
         LET cf == IF a[2] = 8 THEN cfgv ELSE cfg IN
         IF a[3] = 0 THEN <<IRet(a[1])>>
         ELSE IF a[1] = x.sz THEN AppendLoop(cf, c, x, id, 0, a[3], a[3], FALSE, 0) \o <<IRet(a[1])>>      \* append_range, plain policy
         ELSE InsertInputMid(cf, c, x, R, id, a[1], a[3], N)
    [] op = "insert_rng"     -> InsertRange(cfg, c, x, R, id, a[1], a[3], a[2])
    [] op = "insert_il"      -> InsertRange(cfg, c, x, R, id, a[1], a[2], 4)
    [] op = "ctor_rng" /\ a[2] \in {0, 8} ->
         \* input-range constructor (3455): delegate to the allocator constructor, then append element by element;
         \* a failure runs the destructor of the (completely constructed) base
         LET al == IF cfg.isStd THEN 0 ELSE IF a[1] = 0 THEN 1 ELSE a[1]
             x0 == [p |-> TRUE, cap |-> N, sz |-> 0, st |-> 0, al |-> al]
         IN <<ISetP(c, TRUE, al), ISetHd(c, N, 0), ISetSz(c, 0),
              ITry(AppendLoop(IF a[2] = 8 THEN cfgv ELSE cfg, c, x0, id, 0, a[3], a[3], FALSE, 0), <<[t |-> "wipe", c |-> c], ISetP(c, FALSE, 0)>>), IRet(-1)>>
    [] op \in {"ctor_rng", "ctor_il"} ->
         \* forward-range constructor (3483): exact allocation, checked against max_size()
         LET al == IF cfg.isStd THEN 0 ELSE IF a[1] = 0 THEN 1 ELSE a[1]
             n  == IF op = "ctor_rng" THEN a[3] ELSE a[2]
             rk == IF op = "ctor_rng" THEN a[2] ELSE 4
         IN StepTicks(rk, n) \o
            (IF n > N THEN
              IF n > cfg.max THEN <<IThrow("length_error")>>
              ELSE <<IAlloc(id, n, al), ITry(<<UCopyExt(cfgv, rk, 10 + id, 0, 0, n)>>, <<IDealloc(id, n, al)>>),
                     ISetP(c, TRUE, al), ISetHd(c, n, id), ISetSz(c, n)>>
            ELSE <<UCopyExt(cfgv, rk, InlRegion(c), 0, 0, n), ISetP(c, TRUE, al), ISetHd(c, N, 0), ISetSz(c, n)>>)
    [] op \in {"erase_val", "erase_if"} ->
         \* std::remove_if: find the first match; every later element that is kept is move-assigned down; then the
         \* tail [new_end, end) is erased (size first, then destructors)
         LET es == pre[c].e
             hit(j) == IF op = "erase_val" THEN ~(Len(a) >= 2 /\ a[2] = 2) /\ ElemEq(cfg.flt, es[j + 1][1], a[1]) ELSE PredHolds(a[1], a[2], es[j + 1][1])
             firsts == {j \in 0..(x.sz - 1) : hit(j)}
         IN IF firsts = {} THEN <<IRet(0)>>
            ELSE LET f == CHOOSE j \in firsts : \A j2 \in firsts : j <= j2
                     kept == SelectSeq([k \in 1..(x.sz - f - 1) |-> f + k], LAMBDA j : ~hit(j))
                     moves == [k \in 1..Len(kept) |-> IAsg(R, f + k - 1, MoveKind(cfg), R, kept[k])]
                     newsz == f + Len(kept)
                 IN moves \o <<ISetSz(c, newsz)>> \o DestroyRange(R, newsz, x.sz) \o <<IRet(x.sz - newsz)>>
    [] op = "erase"          -> EraseRangeImpl(cfg, c, x, R, a[1], a[1] + 1)
    [] op = "erase_rng"      -> EraseRangeImpl(cfg, c, x, R, a[1], a[2])
    [] op = "pop_back"       -> <<ISetSz(c, x.sz - 1), IDtor(R, x.sz - 1)>>
    [] op = "clear"          -> <<ISetSz(c, 0)>> \o DestroyRange(R, 0, x.sz)
    [] op = "dtor"           -> DestroyRange(R, 0, x.sz) \o (IF x.st > 0 THEN <<IDealloc(x.st, x.cap, x.al)>> ELSE <<>>) \o <<ISetP(c, FALSE, 0)>>
    [] op = "ctor_def"       -> <<ISetP(c, TRUE, IF cfg.isStd THEN 0 ELSE IF a[1] = 0 THEN 1 ELSE a[1]), ISetHd(c, N, 0), ISetSz(c, 0)>>
    [] op = "ctor_gen" ->
         \* generator constructor (3425): every element is g ()'s temporary moved into place; a failure destroys what was built
         LET al == IF cfg.isStd THEN 0 ELSE IF a[1] = 0 THEN 1 ELSE a[1]
             n  == a[2]
             Rn == IF n > N THEN 10 + id ELSE InlRegion(c)
             one(j) == ITry(<<IGen(j), ICtor(3, 0, 3, 0, 0, ln.v[j + 1]),
                              ITry(<<ICtor(Rn, j, MoveKind(cfg), 3, 0, 0)>>, <<IDtor(3, 0)>>), IDtor(3, 0)>>,
                            DestroyRange(Rn, 0, j))
             body == Seqq(0, n, one)
         IN IF n > N THEN
              IF n > cfg.max THEN <<IThrow("length_error")>>
              ELSE <<IAlloc(id, n, al), ITry(body, <<IDealloc(id, n, al)>>), ISetP(c, TRUE, al), ISetHd(c, n, id), ISetSz(c, n)>>
            ELSE body \o <<ISetP(c, TRUE, al), ISetHd(c, N, 0), ISetSz(c, n)>>
    [] op \in {"ctor_n", "ctor_nv"} ->
         \* count constructors (3385-3425): allocate exactly n when n > N, fill, a failure destroys nothing but the block
         LET al == IF cfg.isStd THEN 0 ELSE IF a[1] = 0 THEN 1 ELSE a[1]
             n  == a[2]
             fl(R2) == IF op = "ctor_n" THEN UValue(R2, 0, n) ELSE UFill(R2, 0, n, 4, 100)
         IN IF n > N THEN
              IF n > cfg.max THEN <<IThrow("length_error")>>
              ELSE <<IAlloc(id, n, al), ITry(<<fl(10 + id)>>, <<IDealloc(id, n, al)>>),
                     ISetP(c, TRUE, al), ISetHd(c, n, id), ISetSz(c, n)>>
            ELSE <<fl(InlRegion(c)), ISetP(c, TRUE, al), ISetHd(c, N, 0), ISetSz(c, n)>>

ContOf(cfg, s, c) ==
  LET h == s.hd[c]
      n == NOf(cfg, c)
      R == IF h.st > 0 THEN 10 + h.st ELSE InlRegion(c)
      e == [j \in 1..h.sz |-> <<s.mem[R][j][2], s.mem[R][j][3]>>]
  IN IF ~h.p THEN [p |-> FALSE]
     ELSE [p |-> TRUE, e |-> e, sz |-> h.sz, cap |-> h.cap, st |-> IF h.st = 0 /\ n = 0 THEN -2 ELSE h.st, al |-> h.al,
           inl |-> (h.st = 0), inlb |-> (h.sz <= n), max |-> cfg.max, icap |-> n, ok |-> TRUE, nm |-> TRUE]

\* The L2 prediction of a call: a complete trace line.  ln supplies op, c, s, a, v, k (and id / i for reference).
Exec(cfg, pre, ln) ==
  LET maxid == IF Len(pre.blocks) = 0 THEN 0 ELSE CHOOSE m \in {pre.blocks[j][1] : j \in 1..Len(pre.blocks)} :
                                                   \A j \in 1..Len(pre.blocks) : pre.blocks[j][1] <= m
      id   == IF "newid" \in DOMAIN ln THEN ln.newid ELSE maxid + 1
      s0   == [hd |-> [A |-> Hd(pre.A), B |-> Hd(pre.B), T |-> [p |-> FALSE, cap |-> 0, sz |-> 0, st |-> 0, al |-> 0]],
               mem |-> MemOfState(cfg, pre),
               blk |-> {<<pre.blocks[j][1], pre.blocks[j][2], pre.blocks[j][3]>> : j \in 1..Len(pre.blocks)},
               tmp |-> [j \in 1..(2 + cfg.na + cfg.nb) |-> Raw],
               ext |-> [i \in (0..(Len(ln.v) - 1)) \cup {100} |-> IF i = 100 THEN (IF Len(ln.v) > 0 THEN ln.v[1] ELSE 0) ELSE ln.v[i + 1]],
               evs |-> <<>>, cnt |-> 0, k1 |-> ln.k[1], k2 |-> ln.k[2], fk |-> <<0, 0>>, ret |-> -1]
      r    == RunSeq(cfg, s0, IF ln.s = "-" THEN Script(cfg, pre, ln, id) ELSE Script2(cfg, pre, ln, id), 1)
      s    == r.s
      blks == LET ids == {b[1] : b \in s.blk}
                  RECURSIVE Ord(_, _)
                  Ord(S, acc) == IF S = {} THEN acc
                                 ELSE LET m == CHOOSE q \in S : \A q2 \in S : q <= q2
                                          b == CHOOSE bb \in s.blk : bb[1] = m
                                      IN Ord(S \ {m}, Append(acc, <<b[1], b[2], b[3]>>))
              IN Ord(ids, <<>>)
  IN [t |-> "op", op |-> ln.op, c |-> ln.c, s |-> ln.s, a |-> ln.a, v |-> ln.v, k |-> ln.k, fk |-> s.fk, nf |-> s.cnt,
      out |-> IF r.exc = "" THEN "ok" ELSE r.exc,
      ret |-> IF r.exc # "" THEN -1 ELSE IF ln.op = "cmp" THEN ln.ret ELSE s.ret,
      \* ret2: how far a single-pass range was consumed (also on failure) / how often the generator was called (on success)
      ret2 |-> IF ln.op \in {"ctor_rng", "assign_rng", "append_rng", "insert_rng"} /\ RangeKind(ln) \in {0, 8}
                 THEN Cardinality({j \in 1..Len(s.evs) : s.evs[j][1] = 7})
               ELSE IF ln.op = "ctor_gen" /\ r.exc = "" THEN ln.a[2] ELSE -1,
      evs |-> s.evs, evtrunc |-> FALSE,
      post |-> [A |-> ContOf(cfg, s, "A"), B |-> ContOf(cfg, s, "B")], blocks |-> blks, can |-> TRUE]

=============================================================================
