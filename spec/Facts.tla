------------------------------- MODULE Facts -------------------------------
(***************************************************************************)
(* Decision tables (C19 layout, C18 noexcept table, C13 conversions and    *)
(* minimal requirements).  Each is a documented rule transcribed as a TLA+ *)
(* predicate over a record of compile-time / run-time facts; TLC validates *)
(* the fact records dumped by REAL instantiations of the header, one record*)
(* per step, in the same "violations are data" style as Trace.tla.         *)
(***************************************************************************)
EXTENDS SVecOracle, TLC, Json, IOUtils

Chk(p, n, a, c) == IF a THEN (IF c THEN <<p, n, 1>> ELSE <<p, n, 0>>) ELSE <<p, n, 2>>

Facts == ndJsonDeserialize(IOEnv.TRACE)

RoundUp(x, a) == ((x + a - 1) \div a) * a

(***************************************************************************)
(* C19                                                                     *)
(***************************************************************************)
LargestThatFits(D, szD, szD1, sz1, target) ==
  \/ szD <= target /\ szD1 > target
  \/ D = 1 /\ sz1 > target

LayoutChecks(f) ==
  { Chk("C19", "default-capacity = largest count with sizeof <= 64 (or 1)", TRUE,
        LargestThatFits(f.D, f.szD, f.szD1, f.sz1, f.target)),
    Chk("C19", "default-capacity (std::allocator) = largest count with sizeof <= 64 (or 1)", TRUE,
        LargestThatFits(f.stdD, f.stdSzD, f.stdSzD1, f.stdSz1, f.target)),
    Chk("C19", "inline_capacity() = template argument", TRUE, f.icap = f.D /\ f.icap1 = 1),
    Chk("C19", "N=0 + stateless allocator = pointer + 2 size_type, rounded to pointer alignment", f.allocEmpty,
        f.sz0 = RoundUp(f.ptr + 2 * f.szt, f.ptrAlign)),
    Chk("C19", "N=0 + std::allocator = pointer + 2 size_t", TRUE, f.stdSz0 = 24),
    Chk("C19", "inline buffer aligned for the element type", f.D > 0,
        f.inlOff >= 0 /\ f.inlOff % f.alignT = 0 /\ f.alignV % f.alignT = 0 /\ f.inlOff + f.D * f.sizeofT <= f.szD) }

(***************************************************************************)
(* C18, table half: README "brief"                                         *)
(***************************************************************************)
\* f.ae is allocator_traits<A>::is_always_equal where the standard library provides that trait, else FALSE
MovableAllocs(f)  == f.isStd \/ f.pocma \/ f.ae
SwappableAllocs(f) == f.isStd \/ f.pocs \/ f.ae

DocumentedNoexcept(f) ==
  CASE f.op = "default_ctor"  -> f.allocDefNoex
    [] f.op = "alloc_ctor"    -> TRUE
    [] f.op = "move_ctor"     -> f.nmc \/ f.N = 0
    [] f.op \in {"move_assign", "assign_rvalue"} ->
         MovableAllocs(f) /\ ((f.nma /\ f.nmc) \/ f.N = 0)
    [] f.op = "conv_move_ctor" -> f.nmc /\ f.I < f.N
    [] f.op = "conv_move_assign" -> f.I < f.N /\ MovableAllocs(f) /\ f.nma /\ f.nmc
    [] f.op \in {"swap", "nonmember_swap"} ->
         SwappableAllocs(f) /\ ((f.nmc /\ f.nma /\ f.nsw) \/ f.N = 0)
    [] f.op \in {"clear", "observers"} -> TRUE
    [] OTHER -> FALSE       \* copy construction / assignment, push_back, reserve, shrink_to_fit, pop_back: not noexcept

NoexceptChecks(f) ==
  { Chk("C18", "noexcept(" \o f.op \o ") = documented condition", TRUE, f.val = DocumentedNoexcept(f)) }

IterChecks(f) ==
  { Chk("C18", "iterators are trivially copyable", TRUE, f.trivIt /\ f.trivCIt),
    Chk("C18", "iterators are random access (contiguous where the concept exists)", TRUE, f.randomAccess /\ f.contiguous),
    Chk("C18", "standard nested types", TRUE, f.nested),
    Chk("C18", "iterator -> const_iterator only", TRUE, f.convertible) }

(***************************************************************************)
(* C13 (b): converting inputs.  Values are little-endian 16-bit limbs of   *)
(* the object representation (one limb 0..255 for 8-bit types, 0/1 bool).  *)
(***************************************************************************)
TopSet(l, bits) == IF bits = 8 THEN l[1] >= 128 ELSE IF bits = 1 THEN FALSE ELSE l[Len(l)] >= 32768

\* sign- or zero-extend to 4 limbs (64 bit two's complement)
Extend(l, bits, signed) ==
  LET neg  == signed /\ TopSet(l, bits)
      fill == IF neg THEN 65535 ELSE 0
      l1   == IF bits \in {1, 8} THEN << IF neg THEN l[1] + 65280 ELSE l[1] >> ELSE l
  IN  l1 \o [i \in 1..(4 - Len(l1)) |-> fill]

Truncate(l4, bits) ==
  CASE bits = 1  -> << IF \E i \in 1..4 : l4[i] # 0 THEN 1 ELSE 0 >>
    [] bits = 8  -> << l4[1] % 256 >>
    [] bits = 16 -> << l4[1] >>
    [] bits = 32 -> << l4[1], l4[2] >>
    [] OTHER     -> l4

ConvLimbs(l, sbits, ssigned, dbits) == Truncate(Extend(l, sbits, ssigned), dbits)

Integralish(k) == k \in {"int", "bool", "enum"}

ConvChecks(f) ==
  { Chk("C13", "converted range: every element stored", TRUE, f.gotn = f.n),
    Chk("C13", "integral source -> integral destination = static_cast (modular)", Integralish(f.skind) /\ Integralish(f.dkind) /\ f.gotn = f.n,
        \A i \in 1..f.n : f.got[i] = ConvLimbs(f.in[i], f.sbits, f.ssigned, f.dbits)),
    Chk("C13", "compiler's element-wise static_cast agrees with the TLA+ conversion oracle", Integralish(f.skind) /\ Integralish(f.dkind),
        \A i \in 1..f.n : f.exp[i] = ConvLimbs(f.in[i], f.sbits, f.ssigned, f.dbits)),
    Chk("C13", "arithmetic conversion = static_cast", ~(Integralish(f.skind) /\ Integralish(f.dkind)) /\ f.gotn = f.n,
        f.got = f.exp) }

ConvPtrChecks(f) ==
  { Chk("C13", "pointer conversion = static_cast (base-offset adjusted)", TRUE, f.got = f.exp) }

(***************************************************************************)
(* C13 (c): minimal requirements -- an operation whose documented named    *)
(* requirements are all provided by the element type must compile          *)
(***************************************************************************)
ReqChecks(f) ==
  \* C13 compares the fast path with the generic path: a trivially copyable type must be accepted by every
  \* operation that accepts its non-trivial twin (same special members declared, user-provided instead of
  \* defaulted).  Whether the generic path itself asks for more than the README lists is not a C13 matter;
  \* it is reported in the evidence as information only (needsMet /\ ~compiles).
  { Chk("C13", "fast path adds no requirement: the trivially copyable twin compiles whenever the non-trivial twin does",
        f.twinKnown /\ f.twinCompiles, f.compiles),
    Chk("C13", "twins agree on rejection too", f.twinKnown /\ ~f.twinCompiles, ~f.compiles) }

(***************************************************************************)
(* C20: what the shipped GDB pretty-printer shows == what the API reports  *)
(***************************************************************************)
GdbCont(g, p) ==
  { Chk("C20", "printer registered for the container type", TRUE, g.printer),
    Chk("C20", "printed length = size()", g.printer, g.len = p.sz),
    Chk("C20", "printed capacity = capacity()", g.printer, g.cap = p.cap),
    Chk("C20", "printed elements = iteration order", g.printer, g.elems = [i \in 1..Len(p.e) |-> p.e[i][1]]),
    Chk("C20", "natvis member paths resolve to size / capacity / first element / inline capacity", g.printer,
        /\ g.natvis.ok /\ g.natvis.m_size = p.sz /\ g.natvis.m_capacity = p.cap
        /\ g.natvis.inline_capacity_v = p.icap
        /\ (p.sz > 0 => g.natvis.first = p.e[1][1])
        /\ ((g.natvis.m_capacity = g.natvis.inline_capacity_v) <=> p.inl)) }

GdbIter(g, idx, pA) ==
  { Chk("C20", "iterator printed as the element it refers to", idx >= 0 /\ pA.p,
        g.printer /\ g.m_ptr /\ g.value = pA.e[idx + 1][1]),
    Chk("C20", "value-initialised iterator reported as non-dereferenceable", idx < 0,
        g.printer /\ g.text = "non-dereferenceable iterator for gch::small_vector") }

GdbChecks(f) ==
  (IF f.pA.p THEN GdbCont(f.gA, f.pA) ELSE {}) \cup (IF f.pB.p THEN GdbCont(f.gB, f.pB) ELSE {})
  \cup GdbIter(f.it, f.it_index, f.pA) \cup GdbIter(f.cit, f.it_index, f.pA)

CompileChecks(f) ==
  { Chk(f.prop, f.what, TRUE, f.compiles) }

VARIABLE l

Report(checks) ==
  LET bad  == {t \in checks : t[3] = 0}
      hits == {t[1] : t \in {u \in checks : u[3] # 2}}
  IN  /\ \A t \in bad : PrintT(<<"V", l, t[1], t[2]>>)
      /\ (hits # {} => PrintT(<<"H", l, hits>>))

Init == l = 1
Step ==
  /\ l <= Len(Facts)
  /\ LET f == Facts[l] IN
     Report(CASE f.t = "layout" -> LayoutChecks(f)
              [] f.t = "noexcept" -> NoexceptChecks(f)
              [] f.t = "itertraits" -> IterChecks(f)
              [] f.t = "conv" -> ConvChecks(f)
              [] f.t = "convptr" -> ConvPtrChecks(f)
              [] f.t = "req" -> ReqChecks(f)
              [] f.t = "compile" -> CompileChecks(f)
              [] f.t = "gdbview" -> GdbChecks(f)
              [] OTHER -> {})
  /\ l' = l + 1
Finish == l = Len(Facts) + 1 /\ PrintT(<<"END", Len(Facts)>>) /\ l' = l + 1
Next == Step \/ Finish
Spec == Init /\ [][Next]_l
=============================================================================
