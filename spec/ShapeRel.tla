------------------------------ MODULE ShapeRel ------------------------------
(***************************************************************************)
(* The transition relation of ShapeInd in CLOSED FORM (no quantifier over  *)
(* the requested size): a pure operator over two shapes <<size, capacity,  *)
(* heap>>, parameterised by the inline capacity N and max_size() M.        *)
(*   - ShapeInd (Apalache) shows that the storage invariant is inductive   *)
(*     under it for unbounded integers, and that every step of the         *)
(*     quantified relation (the one ShapeProof proves with TLAPS) is a     *)
(*     step of the closed form;                                            *)
(*   - SVecMC asserts it on every transition the policy / L2 takes;        *)
(*   - ImplTrace evaluates it on every RECORDED call of the real code      *)
(*     (a step outside it is SPEC-DRIFT: the proof no longer talks about   *)
(*     this code).                                                         *)
(* It is deliberately the union over all operations (which operation may   *)
(* take which step is what L2 says); its job is to tie the unbounded proof *)
(* to the code.                                                            *)
(***************************************************************************)
EXTENDS Integers

SMax(a, b) == IF a >= b THEN a ELSE b

\* cls: which steps a call of that class may take (one call may take several growing steps: their composition is a
\* growing step again).  "mutate": every one-container member but shrink_to_fit; "shrink": shrink_to_fit;
\* "ctor": constructors that do not take another container; "binary": everything involving a second container.
StepClosed(N, M, cls, s, c, h, s2, c2, h2) ==
  \* within the capacity: any growing call that fits, any erase, a failed call (also stuttering)
  \/ /\ c2 = c /\ h2 = h /\ 0 <= s2 /\ s2 <= c
  \* growing with reallocation: unchecked_calculate_new_capacity
  \/ /\ cls \in {"mutate", "ctor", "binary"}
     /\ c2 > c /\ h2 = TRUE /\ 0 <= s2 /\ s2 <= c2 /\ c2 <= M
     /\ IF M - c <= c THEN c2 = M ELSE c2 >= 2 * c
  \* shrink_to_fit
  \/ /\ cls \in {"shrink", "binary"}
     /\ s2 = s /\ h /\ s < c /\ c2 = SMax(s, N) /\ h2 = (s > N)
  \* receiving a stolen heap buffer (move / swap)
  \/ /\ cls = "binary"
     /\ 0 <= s2 /\ s2 <= c2 /\ c2 > N /\ c2 <= M /\ h2 = TRUE
  \* stolen from / collapsing to the inline buffer
  \/ /\ cls = "binary"
     /\ 0 <= s2 /\ s2 <= N /\ c2 = N /\ h2 = FALSE
  \* exact-fit reallocation (copy construction, allocator-replacing assignment, range / count construction)
  \/ /\ cls \in {"ctor", "binary"}
     /\ s2 > N /\ s2 <= M /\ c2 = s2 /\ h2 = TRUE

StepClass(op) ==
  IF op = "shrink" THEN "shrink"
  ELSE IF op \in {"ctor_def", "ctor_n", "ctor_nv", "ctor_gen", "ctor_rng", "ctor_il"} THEN "ctor"
  ELSE IF op \in {"ctor_copy", "ctor_move", "assign_copy", "assign_copy_f", "assign_move", "assign_move_f", "swap", "append_copy", "append_move", "cmp"}
    THEN "binary"
  ELSE "mutate"
=============================================================================
