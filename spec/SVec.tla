------------------------------- MODULE SVec -------------------------------
(***************************************************************************)
(* L1 -- the API-level CONTRACT of gch::small_vector.                      *)
(*                                                                         *)
(* One relation per public call, written once and used twice:              *)
(*   - model checking (MC_*.tla): the relation is asserted of the          *)
(*     post-state a shape-level policy predicts (policy inside contract),  *)
(*   - trace validation (Trace.tla): the relation is evaluated between the *)
(*     spec's current state and the logged post-state of the real call.    *)
(*                                                                         *)
(* A relation is a SET OF CHECKS  <<property, name, verdict>>  with        *)
(* verdict 1 = antecedent held and consequent held, 0 = antecedent held    *)
(* and consequent FAILED (a violation of that property), 2 = antecedent    *)
(* did not hold (not exercised).  Every check is a literal transcription   *)
(* of one sentence of one property; what the properties leave free (exact  *)
(* new capacity, block ids, state of an element-wise moved-from source,    *)
(* ...) is left free here, so a correct alternative implementation is      *)
(* never flagged.                                                          *)
(*                                                                         *)
(* State of a container (as probed through the public API):                *)
(*   [p |-> present?, e |-> << <<value, movedFromFlag>> ... >>, sz, cap,   *)
(*    st |-> 0 inside the object | -2 null | b > 0 allocator block b | -1, *)
(*    al |-> allocator id, inl, inlb, max, icap, ok]                       *)
(* pre / post = [A |-> ..., B |-> ..., blocks |-> << <<id, n, aid>> ... >>]*)
(* ln = the call: op, c (and s), a (integer arguments), v (fresh values),  *)
(* out, ret, ret2, k, fk, evs (event list, see SVecMem).                   *)
(***************************************************************************)
EXTENDS SVecOracle, ShapeRel, TLC

Chk(p, n, a, c) == IF a THEN (IF c THEN <<p, n, 1>> ELSE <<p, n, 0>>) ELSE <<p, n, 2>>

Vals(x)      == [i \in 1..Len(x.e) |-> x.e[i][1]]
El(vals)     == [i \in 1..Len(vals) |-> <<vals[i], 0>>]      \* fresh elements: not moved-from
NoneMoved(x) == \A i \in 1..Len(x.e) : x.e[i][2] = 0
StN(x)       == IF x.st \in {0, -2} THEN 0 ELSE x.st
Heap(x)      == StN(x) # 0
NOf(cfg, c)  == IF c = "A" THEN cfg.na ELSE cfg.nb
Other(c)     == IF c = "A" THEN "B" ELSE "A"
AllocEq(cfg, a, b) == cfg.isStd \/ cfg.ae \/ a = b
RegionOf(c, x) == IF Heap(x) THEN 10 + x.st ELSE (IF c = "A" THEN 1 ELSE 2)

Unchanged(x, y) == /\ y.p = x.p
                   /\ x.p => (y.e = x.e /\ y.cap = x.cap /\ StN(y) = StN(x) /\ y.al = x.al)
SameElems(x, y) == y.e = x.e

\* ---- event summaries (the driver logs raw events; the spec derives what it needs)
KindOf(e)    == e[4] % 16
IsElemEv(e)  == e[1] \in {1, 2, 3}
Allocs(evs)  == SelectSeq(evs, LAMBDA e : e[1] = 4)
Deallocs(evs) == SelectSeq(evs, LAMBDA e : e[1] = 5)
NoEvents(evs) == \A j \in 1..Len(evs) : evs[j][1] \notin {1, 2, 3, 4, 5}
\* no element event has a target, or a moved-from source, in region r at an index below pos
PrefixUntouched(evs, r, pos) ==
  \A j \in 1..Len(evs) :
    LET e == evs[j] IN
    IsElemEv(e) => /\ ~(e[2] = r /\ e[3] < pos)
                   /\ ~(e[1] \in {1, 2} /\ KindOf(e) = 2 /\ e[5] = r /\ e[6] < pos)
\* no element event touches region r at all (as target or as source of a move)
RegionUntouched(evs, r) ==
  \A j \in 1..Len(evs) :
    LET e == evs[j] IN
    IsElemEv(e) => /\ e[2] # r
                   /\ ~(e[1] \in {1, 2} /\ KindOf(e) = 2 /\ e[5] = r)
\* no element of region rOld is move-constructed into another buffer more than once
MovedOutAtMostOnce(evs, rOld) ==
  \A j1 \in 1..Len(evs), j2 \in 1..Len(evs) :
    LET e1 == evs[j1]
        e2 == evs[j2]
    IN  ( /\ j1 < j2
          /\ e1[1] = 1 /\ KindOf(e1) = 2 /\ e1[5] = rOld /\ e1[2] # rOld
          /\ e2[1] = 1 /\ KindOf(e2) = 2 /\ e2[5] = rOld /\ e2[2] # rOld )
        => e1[6] # e2[6]

\* ---- C14: "at least the required size and at least 1.5x the old capacity, saturating"
GrowOK(old, new, req, max) ==
  /\ new >= req
  /\ new >= Min(old + old \div 2, max)
  /\ new <= max

\* number of reallocations the WEAKEST policy C14 allows (x1.5, at least +1) needs to get from capacity c to target
RECURSIVE GrowthSteps(_, _)
GrowthSteps(c, target) == IF c >= target THEN 0 ELSE 1 + GrowthSteps(Max(c + c \div 2, c + 1), target)

\* ---- C05: faults for which the strong guarantee is promised
StrongFault(cfg, ln) ==
  /\ ln.k[2] = 0
  /\ \/ ln.fk[1] \in {1, 2, 6, 7}
     \/ ln.fk[1] = 3 /\ cfg.copyable

Fatal(ln) == ln.out \in {"terminate", "crash", "hang"}

(***************************************************************************)
(* Global invariants of a quiescent state (C02 storage invariants, C04     *)
(* ledger), evaluated on the post-state of EVERY line.                     *)
(***************************************************************************)
BlockRec(blocks, id) == CHOOSE b \in {blocks[j] : j \in 1..Len(blocks)} : b[1] = id
HasBlock(blocks, id) == \E j \in 1..Len(blocks) : blocks[j][1] = id

StorageChecks(cfg, c, x, blocks) ==
  LET n == NOf(cfg, c) IN
  { Chk("C02", "size<=capacity",        TRUE, (IF "etrunc" \in DOMAIN x THEN Len(x.e) <= x.sz ELSE x.sz = Len(x.e)) /\ x.sz <= x.cap),
    Chk("C02", "capacity>=inline",      TRUE, x.cap >= n /\ x.icap = n),
    Chk("C02", "capacity<=max",         TRUE, x.cap <= Max(x.max, n)),
    Chk("C02", "inlined<=>cap=N",       TRUE, x.inl <=> (x.cap = n)),
    Chk("C02", "inlined<=>data-inside", TRUE, /\ x.inl <=> (x.st \in {0, -2})
                                              /\ (x.st = -2 => n = 0)
                                              /\ x.st # -1),
    Chk("C02", "heap-block-exact",      ~x.inl /\ x.st > 0,
                                        /\ HasBlock(blocks, x.st)
                                        /\ BlockRec(blocks, x.st)[2] = x.cap
                                        /\ AllocEq(cfg, BlockRec(blocks, x.st)[3], x.al)),
    Chk("C02", "contiguous-views",      TRUE, x.ok),
    Chk("C02", "inlinable",             TRUE, x.inlb <=> (x.sz <= n)),
    Chk("C16", "non-member begin/end/size/ssize/empty/data agree with the members", TRUE, x.nm),
    Chk("C12", "size<=max_size",        TRUE, x.sz <= Max(x.max, n)),
    Chk("C12", "max_size() = min(allocator's max_size(), max of difference_type)", "allocMax" \in DOMAIN cfg,
        x.max = Min(cfg.allocMax, cfg.diffMax)) }

LedgerChecks(cfg, post) ==
  LET owned == {StN(post[c]) : c \in {d \in {"A", "B"} : post[d].p /\ Heap(post[d])}}
      live  == {post.blocks[j][1] : j \in 1..Len(post.blocks)}
  IN { Chk("C04", "live-blocks=heap-buffers", TRUE, live = owned),
       Chk("C02", "buffers-distinct", post.A.p /\ post.B.p /\ Heap(post.A) /\ Heap(post.B),
                                      StN(post.A) # StN(post.B)) }

InvChecks(cfg, post, can) ==
  UNION { IF post[c].p THEN StorageChecks(cfg, c, post[c], post.blocks) ELSE {} : c \in {"A", "B"} }
  \cup (IF cfg.vector THEN {} ELSE LedgerChecks(cfg, post))
  \cup { Chk("C13", "no-byte-outside-storage", TRUE, can),
         Chk("C12", "no-write-past-block", TRUE, can) }

(***************************************************************************)
(* The common shape of a mutating call on one container: the contents      *)
(* become `want`; `req` is the capacity that requires.                     *)
(* o: [strong, stdop, known (element count known up front), c14 (listed in *)
(*     C14), c10 (listed in C10's "fits" rule), pos (first modified        *)
(*     position), ret (expected return or -1), noalloc (C04 applies)]      *)
(***************************************************************************)
MutateChecks(cfg, pre, post, ln, c, want, req, o) ==
  LET x     == pre[c]
      y     == post[c]
      sz    == Len(x.e)
      evs   == ln.evs
      ok    == ln.out = "ok"
      fits  == req <= x.cap
      \* the limit is max_size(), or the inline capacity where that is larger (C02 words it the same way)
      big   == req > Max(x.max, NOf(cfg, c))
      r     == RegionOf(c, x)
  IN
  { Chk("C01", "values",        ok, y.e = want),
    Chk("C01", "return",        ok /\ o.ret >= 0, ln.ret = o.ret),
    Chk("C01", "throws-only-as-vector", TRUE,
                                ln.out \in {"ok", "injected", "length_error", "terminate", "crash", "hang"}
                                /\ (ln.out = "injected" => ln.k[1] > 0)),
    Chk("C07", "allocator-kept", ok \/ ln.out = "length_error", AllocEq(cfg, y.al, x.al)),
    Chk("C12", "length_error<=>too-big", ~Fatal(ln) /\ ln.k[1] = 0, (ln.out = "length_error") <=> big),
    \* "unchanged" as C05 defines it: elements for every call; capacity() and data() too for the
    \* std::vector-specified calls (the append extension may have grown its buffer before it found out)
    Chk("C12", "length_error-no-effect", ln.out = "length_error",
                                IF o.stdop THEN Unchanged(x, y) /\ post.blocks = pre.blocks
                                           ELSE SameElems(x, y) /\ y.al = x.al),
    Chk("C10", "fits=>capacity,data-unchanged", ok /\ fits /\ o.c10,
                                y.cap = x.cap /\ StN(y) = StN(x)),
    Chk("C10", "fits=>prefix-untouched", ok /\ fits /\ o.c10 /\ cfg.tracked /\ ~ln.evtrunc,
                                PrefixUntouched(evs, r, o.pos)),
    Chk("C04", "fits=>no-allocate", ok /\ fits /\ o.noalloc, Len(Allocs(evs)) = 0),
    Chk("C14", "geometric-growth", ok /\ ~fits /\ o.c14, GrowOK(x.cap, y.cap, req, Max(x.max, NOf(cfg, c)))),
    Chk("C10", "grows=>capacity-suffices", ok /\ ~fits, y.cap >= req),
    Chk("C10", "known-count=>one-reallocation", ok /\ ~fits /\ o.known /\ ~ln.evtrunc,
                                /\ Len(Allocs(evs)) <= 1
                                /\ (cfg.tracked => MovedOutAtMostOnce(evs, r))),
    Chk("C05", "strong:elements-unchanged", ln.out = "injected" /\ o.strong /\ StrongFault(cfg, ln),
                                SameElems(x, y) /\ y.al = x.al),
    Chk("C05", "strong:capacity,data-unchanged", ln.out = "injected" /\ o.strong /\ o.stdop /\ StrongFault(cfg, ln),
                                y.cap = x.cap /\ StN(y) = StN(x)),
    Chk("C05", "strong:nothing-leaked", ln.out = "injected" /\ o.strong /\ o.stdop /\ StrongFault(cfg, ln),
                                post.blocks = pre.blocks) }

Opt(strong, stdop, known, c14, c10, pos, ret, noalloc) ==
  [strong |-> strong, stdop |-> stdop, known |-> known, c14 |-> c14, c10 |-> c10,
   pos |-> pos, ret |-> ret, noalloc |-> noalloc]

\* the other container is not affected by a unary call
FrameChecks(pre, post, c) ==
  { Chk("C01", "other-container-unaffected", TRUE, post[Other(c)] = pre[Other(c)]) }

\* value of an argument that may alias element i of the container itself (C11: as if copied first)
ArgVal(x, alias, ln) == IF alias >= 0 THEN x.e[alias + 1] ELSE <<ln.v[1], 0>>

AliasChecks(pre, post, ln, c, alias, want) ==
  { Chk("C11", "alias-as-if-copied-first", ln.out = "ok" /\ alias >= 0,
        post[c].e = want) }

\* C15, result side: a single-pass range was consumed completely, exactly once
\* range kinds whose iterators are single-pass: 0 (over elements), 8 (over construct-only sources)
SinglePass(kind) == kind \in {0, 8}
InputChecks(ln, kind, len) ==
  { Chk("C15", "input-range-fully-consumed-once", ln.out = "ok" /\ SinglePass(kind), ln.ret2 = len) }

(***************************************************************************)
(* Unary operations                                                        *)
(***************************************************************************)
UnaryChecks(cfg, pre, post, ln) ==
  LET c   == ln.c
      x   == pre[c]
      y   == post[c]
      sz  == Len(x.e)
      vs  == x.e           \* elements are <<value, movedFrom>> pairs; a relocated element keeps both
      a   == ln.a
      op  == ln.op
      fv  == El(ln.v)      \* the fresh values the call was given
  IN
  FrameChecks(pre, post, c) \cup
  CASE op = "push_back" ->
         LET want == Append(vs, ArgVal(x, a[1], ln)) IN
         MutateChecks(cfg, pre, post, ln, c, want, sz + 1, Opt(TRUE, TRUE, TRUE, TRUE, TRUE, sz, -1, TRUE))
         \cup AliasChecks(pre, post, ln, c, a[1], want)
    [] op = "push_back_m" ->
         MutateChecks(cfg, pre, post, ln, c, Append(vs, fv[1]), sz + 1, Opt(TRUE, TRUE, TRUE, TRUE, TRUE, sz, -1, TRUE))
    [] op = "emplace_back_c" ->
         LET want == Append(vs, ArgVal(x, a[1], ln)) IN
         MutateChecks(cfg, pre, post, ln, c, want, sz + 1, Opt(TRUE, TRUE, TRUE, TRUE, TRUE, sz, sz, TRUE))
         \cup AliasChecks(pre, post, ln, c, a[1], want)
    [] op = "emplace_back_v" ->
         MutateChecks(cfg, pre, post, ln, c, Append(vs, fv[1]), sz + 1, Opt(TRUE, TRUE, TRUE, TRUE, TRUE, sz, sz, TRUE))
    [] op \in {"insert", "emplace_c"} ->
         LET want == InsertAt(vs, a[1], <<ArgVal(x, a[2], ln)>>) IN
         MutateChecks(cfg, pre, post, ln, c, want, sz + 1, Opt(a[1] = sz, TRUE, TRUE, TRUE, TRUE, a[1], a[1], TRUE))
         \cup AliasChecks(pre, post, ln, c, a[2], want)
    [] op \in {"insert_m", "emplace_v"} ->
         MutateChecks(cfg, pre, post, ln, c, InsertAt(vs, a[1], fv), sz + 1,
                      Opt(a[1] = sz, TRUE, TRUE, TRUE, TRUE, a[1], a[1], TRUE))
    [] op = "insert_n" ->
         LET want == InsertAt(vs, a[1], Rep(a[2], ArgVal(x, a[3], ln))) IN
         MutateChecks(cfg, pre, post, ln, c, want, sz + a[2],
                      Opt(a[1] = sz /\ a[2] = 1, TRUE, TRUE, TRUE, TRUE, a[1], a[1], TRUE))
         \cup AliasChecks(pre, post, ln, c, a[3], want)
    [] op = "insert_rng" ->
         \* a: pos, kind, len.  A single-pass range inserted mid-sequence may be buffered (C04 exception)
         MutateChecks(cfg, pre, post, ln, c, InsertAt(vs, a[1], fv), sz + a[3],
                      Opt(FALSE, TRUE, ~SinglePass(a[2]), TRUE, TRUE, a[1], a[1], ~(SinglePass(a[2]) /\ a[1] < sz)))
         \cup InputChecks(ln, a[2], a[3])
    [] op = "insert_il" ->
         MutateChecks(cfg, pre, post, ln, c, InsertAt(vs, a[1], fv), sz + a[2],
                      Opt(FALSE, TRUE, TRUE, TRUE, TRUE, a[1], a[1], TRUE))
    [] op = "append_rng" ->
         MutateChecks(cfg, pre, post, ln, c, vs \o fv, sz + a[2],
                      Opt(TRUE, FALSE, ~SinglePass(a[1]), TRUE, TRUE, sz, -1, TRUE))
         \cup InputChecks(ln, a[1], a[2])
    [] op = "append_il" ->
         MutateChecks(cfg, pre, post, ln, c, vs \o fv, sz + a[1], Opt(TRUE, FALSE, TRUE, TRUE, TRUE, sz, -1, TRUE))
    [] op = "assign_n" ->
         MutateChecks(cfg, pre, post, ln, c, Rep(a[1], fv[1]), a[1], Opt(FALSE, TRUE, TRUE, TRUE, TRUE, 0, -1, TRUE))
    [] op = "assign_rng" ->
         MutateChecks(cfg, pre, post, ln, c, fv, a[2], Opt(FALSE, TRUE, ~SinglePass(a[1]), TRUE, TRUE, 0, -1, TRUE))
         \cup InputChecks(ln, a[1], a[2])
    [] op \in {"assign_il", "opeq_il"} ->
         MutateChecks(cfg, pre, post, ln, c, fv, a[1], Opt(FALSE, TRUE, TRUE, TRUE, TRUE, 0, -1, TRUE))
    [] op = "set_vals" ->
         MutateChecks(cfg, pre, post, ln, c, El(a), Len(a), Opt(FALSE, TRUE, TRUE, TRUE, TRUE, 0, -1, TRUE))
    [] op = "erase" ->
         MutateChecks(cfg, pre, post, ln, c, EraseRange(vs, a[1], a[1] + 1), sz - 1,
                      Opt(FALSE, TRUE, TRUE, FALSE, TRUE, a[1], a[1], TRUE))
    [] op = "erase_rng" ->
         MutateChecks(cfg, pre, post, ln, c, EraseRange(vs, a[1], a[2]), sz - (a[2] - a[1]),
                      Opt(FALSE, TRUE, TRUE, FALSE, TRUE, a[1], a[1], TRUE))
    [] op = "pop_back" ->
         MutateChecks(cfg, pre, post, ln, c, SubSeq(vs, 1, sz - 1), sz - 1, Opt(FALSE, TRUE, TRUE, FALSE, TRUE, sz - 1, -1, TRUE))
    [] op = "clear" ->
         MutateChecks(cfg, pre, post, ln, c, <<>>, 0, Opt(FALSE, TRUE, TRUE, FALSE, TRUE, 0, -1, TRUE))
         \cup { Chk("C18", "clear-never-throws", TRUE, ln.out = "ok") }
    [] op = "resize" ->
         MutateChecks(cfg, pre, post, ln, c, ResizeTo(vs, a[1], <<cfg.defval, 0>>), a[1], Opt(TRUE, TRUE, TRUE, TRUE, TRUE, Min(sz, a[1]), -1, TRUE))
    [] op = "resize_v" ->
         LET want == ResizeTo(vs, a[1], ArgVal(x, a[2], ln)) IN
         MutateChecks(cfg, pre, post, ln, c, want, a[1], Opt(TRUE, TRUE, TRUE, TRUE, TRUE, Min(sz, a[1]), -1, TRUE))
         \cup AliasChecks(pre, post, ln, c, a[2], want)
    [] op = "reserve" ->
         MutateChecks(cfg, pre, post, ln, c, vs, a[1], Opt(TRUE, TRUE, TRUE, TRUE, TRUE, sz, -1, TRUE))
         \cup { Chk("C10", "reserve:capacity>=n", ln.out = "ok", y.cap >= a[1]),
                Chk("C10", "reserve:no-op-when-n<=capacity", ln.out = "ok" /\ a[1] <= x.cap,
                           Unchanged(x, y) /\ NoEvents(ln.evs)) }
    [] op = "shrink" ->
         \* shrink_to_fit may allocate (listed exception of C04) and is outside C10 / C14
         MutateChecks(cfg, pre, post, ln, c, vs, 0, Opt(TRUE, TRUE, TRUE, FALSE, FALSE, sz, -1, FALSE))
         \cup { Chk("C02", "shrink_to_fit:capacity=max(size,N)", ln.out = "ok" /\ ~cfg.vector,
                           y.cap = Max(sz, NOf(cfg, c))) }
    [] op = "at" ->
         \* a[2] (optional) # 0: an index far beyond any size (SIZE_MAX - a[1], the sign bit of the difference type + a[1],
         \* SIZE_MAX / 2 - a[1]); both the const and the non-const overload are called ("ok" with ret -7 when they disagree)
         LET far == Len(a) >= 2 /\ a[2] # 0 IN
         { Chk("C01", "at:value", ~far /\ a[1] < sz, ln.out = "ok" /\ ln.ret = vs[a[1] + 1][1]),
           Chk("C01", "at:out_of_range", far \/ a[1] >= sz, ln.out = "out_of_range"),
           Chk("C01", "at:no-effect", TRUE, y = x /\ post.blocks = pre.blocks /\ NoEvents(ln.evs)) }
    [] op = "erase_val" ->
         \* a[2] (optional): 1 = the value is of another type and equal to the element value a[1]; 2 = of another type,
         \* equal to NO element, although it converts to the element value a[1] (std::erase compares element == value)
         LET P(v) == ~(Len(a) >= 2 /\ a[2] = 2) /\ ElemEq(cfg.flt, v[1], a[1]) IN
         MutateChecks(cfg, pre, post, ln, c, RemoveIf(vs, P), 0, Opt(FALSE, FALSE, TRUE, FALSE, TRUE, 0, -1, TRUE))
         \cup { Chk("C16", "erase:removes-exactly-the-matches", ln.out = "ok",
                    y.e = RemoveIf(vs, P) /\ ln.ret = CountIf(vs, P)) }
    [] op = "erase_if" ->
         LET P(v) == PredHolds(a[1], a[2], v[1]) IN
         MutateChecks(cfg, pre, post, ln, c, RemoveIf(vs, P), 0, Opt(FALSE, FALSE, TRUE, FALSE, TRUE, 0, -1, TRUE))
         \cup { Chk("C16", "erase_if:removes-exactly-the-matches", ln.out = "ok",
                    y.e = RemoveIf(vs, P) /\ ln.ret = CountIf(vs, P)) }
    [] op = "dtor" ->
         { Chk("C03", "destructor-completes", TRUE, ln.out = "ok" /\ ~y.p) }
    [] op = "push_n" ->
         \* long append run (C14): the driver reports the chain of capacities, the number of allocations and the number
         \* of element relocations of a[1] single appends
         LET ch == ln.chain
             n  == a[1]
             s0 == x.sz          \* (the element list of a long container is logged as a prefix only)
         IN { Chk("C01", "long-run:size", ln.out = "ok", y.sz = s0 + n /\ y.cap = ch[Len(ch)]),
              Chk("C14", "long-run:every-reallocation-geometric", ln.out = "ok",
                  \A j \in 1..(Len(ch) - 1) : GrowOK(ch[j], ch[j + 1], ch[j] + 1, x.max)),
              Chk("C14", "long-run:one-allocation-per-capacity-change", ln.out = "ok", ln.nalloc = Len(ch) - 1),
              Chk("C14", "long-run:O(log n)-allocations", ln.out = "ok", ln.nalloc <= GrowthSteps(Max(ch[1], 1), s0 + n)),
              Chk("C14", "long-run:O(n)-relocations", ln.out = "ok" /\ ln.nreloc >= 0, ln.nreloc <= 3 * (s0 + n) + 64) }
    [] OTHER -> { Chk("INTERNAL", "unknown-op", TRUE, FALSE) }

(***************************************************************************)
(* Constructors of one container.  a[1] = allocator id (0: none supplied)  *)
(***************************************************************************)
CtorCommon(cfg, post, ln, c, want, al) ==
  LET y  == post[c]
      n  == NOf(cfg, c)
      ok == ln.out = "ok"
      need == Len(want)
      big  == need > Max(cfg.max, n)
  IN
  { Chk("C01", "ctor:values",       ok, y.p /\ y.e = El(want)),
    Chk("C01", "ctor:throws-only-as-vector", TRUE,
        ln.out \in {"ok", "injected", "length_error", "terminate", "crash", "hang"} /\ (ln.out = "injected" => ln.k[1] > 0)),
    Chk("C07", "ctor:allocator",    ok, AllocEq(cfg, y.al, al)),
    Chk("C04", "ctor:fits-inline=>no-allocate", ok /\ need <= n /\ ~cfg.vector, Len(Allocs(ln.evs)) = 0 /\ ~Heap(y)),
    Chk("C10", "ctor:at-most-one-allocation", ok /\ ln.op # "ctor_rng", Len(Allocs(ln.evs)) <= 1),
    Chk("C12", "ctor:length_error<=>too-big", ~Fatal(ln) /\ ln.k[1] = 0, (ln.out = "length_error") <=> big),
    Chk("C06", "ctor:failed=>no-object", ln.out \in {"injected", "length_error"}, ~y.p) }

CtorChecks(cfg, pre, post, ln) ==
  LET c   == ln.c
      a   == ln.a
      al  == IF cfg.isStd THEN 0 ELSE IF a[1] = 0 THEN 1 ELSE a[1]
      op  == ln.op
  IN
  FrameChecks(pre, post, c) \cup
  CASE op = "ctor_def" -> CtorCommon(cfg, post, ln, c, <<>>, al)
                          \cup { Chk("C18", "ctor_def:never-throws", TRUE, ln.out = "ok" /\ NoEvents(ln.evs)) }
    [] op = "ctor_n"   -> CtorCommon(cfg, post, ln, c, Rep(a[2], cfg.defval), al)
    [] op = "ctor_nv"  -> CtorCommon(cfg, post, ln, c, Rep(a[2], ln.v[1]), al)
    [] op = "ctor_gen" -> CtorCommon(cfg, post, ln, c, ln.v, al)
                          \cup { Chk("C15", "generator-called-exactly-count-times", ln.out = "ok", ln.ret2 = a[2]) }
    [] op = "ctor_rng" -> CtorCommon(cfg, post, ln, c, ln.v, al) \cup InputChecks(ln, a[2], a[3])
    [] op = "ctor_il"  -> CtorCommon(cfg, post, ln, c, ln.v, al)
    [] OTHER -> { Chk("INTERNAL", "unknown-ctor", TRUE, FALSE) }

(***************************************************************************)
(* Two-container operations:  d = ln.c (destination), s = ln.s (source)    *)
(***************************************************************************)
\* the heap buffer of src now belongs to dst, untouched; src is empty and inlined
Stolen(cfg, pre, post, ln, d, s) ==
  /\ StN(post[d]) = StN(pre[s]) /\ post[d].cap = pre[s].cap
  /\ post[d].e = pre[s].e
  /\ (cfg.tracked => RegionUntouched(ln.evs, RegionOf(s, pre[s])))
  /\ post[s].e = <<>> /\ ~Heap(post[s]) /\ post[s].cap = NOf(cfg, s)

CtorFromChecks(cfg, pre, post, ln) ==
  LET d  == ln.c
      s  == ln.s
      xs == pre[s]
      y  == post[d]
      a  == ln.a
      ok == ln.out = "ok"
      nd == NOf(cfg, d)
      sz == Len(xs.e)
  IN
  CASE ln.op = "ctor_copy" ->
         LET al == IF cfg.isStd THEN 0 ELSE IF a[1] # 0 THEN a[1] ELSE IF cfg.soccc = 1 THEN xs.al + 50 ELSE xs.al IN
         { Chk("C01", "copy-ctor:values",  ok, y.p /\ y.e = xs.e),
           Chk("C01", "copy-ctor:source-unchanged", TRUE, post[s] = xs),
           Chk("C07", "copy-ctor:allocator=select_on_container_copy_construction", ok /\ a[1] = 0, AllocEq(cfg, y.al, al)),
           Chk("C07", "copy-ctor:allocator=supplied", ok /\ a[1] # 0, AllocEq(cfg, y.al, al)),
           Chk("C04", "copy-ctor:fits-inline=>no-allocate", ok /\ sz <= nd /\ ~cfg.vector, Len(Allocs(ln.evs)) = 0 /\ ~Heap(y)),
           Chk("C10", "copy-ctor:at-most-one-allocation", ok, Len(Allocs(ln.evs)) <= 1),
           Chk("C06", "copy-ctor:failed=>no-object", ln.out = "injected", ~y.p),
           Chk("C01", "copy-ctor:throws-only-as-vector", TRUE,
               ln.out \in {"ok", "injected", "terminate", "crash", "hang"} /\ (ln.out = "injected" => ln.k[1] > 0)) }
    [] ln.op = "ctor_move" ->
         LET al     == IF cfg.isStd THEN 0 ELSE IF a[1] # 0 THEN a[1] ELSE xs.al
             interch == a[1] = 0 \/ AllocEq(cfg, a[1], xs.al)
             must   == Heap(xs) /\ xs.cap > nd /\ interch
         IN
         { Chk("C01", "move-ctor:values",  ok, y.p /\ y.e = xs.e),
           Chk("C07", "move-ctor:allocator=source's", ok /\ a[1] = 0, AllocEq(cfg, y.al, al)),
           Chk("C07", "move-ctor:allocator=supplied", ok /\ a[1] # 0, AllocEq(cfg, y.al, al)),
           Chk("C07", "move-ctor:source-allocator-kept", ok, AllocEq(cfg, post[s].al, xs.al)),
           Chk("C09", "move-ctor:steals-when-permitted", ok /\ must /\ ~cfg.vector, Stolen(cfg, pre, post, ln, d, s)),
           Chk("C04", "move-ctor:steal=>no-allocate", ok /\ must, Len(Allocs(ln.evs)) = 0),
           Chk("C04", "move-ctor:fits-inline=>no-allocate", ok /\ sz <= nd /\ ~cfg.vector, Len(Allocs(ln.evs)) = 0),
           Chk("C06", "move-ctor:failed=>no-object", ln.out = "injected", ~y.p),
           Chk("C01", "move-ctor:throws-only-as-vector", TRUE,
               ln.out \in {"ok", "injected", "terminate", "crash", "hang"} /\ (ln.out = "injected" => ln.k[1] > 0)) }
    [] OTHER -> { Chk("INTERNAL", "unknown-ctor-from", TRUE, FALSE) }

BinaryChecks(cfg, pre, post, ln) ==
  LET d   == ln.c
      s   == ln.s
      xd  == pre[d]
      xs  == pre[s]
      yd  == post[d]
      ys  == post[s]
      ok  == ln.out = "ok"
      op  == ln.op
      self == d = s
      nd  == NOf(cfg, d)
      eq  == AllocEq(cfg, xd.al, xs.al)
      szs == Len(xs.e)
      szd == Len(xd.e)
      outOK == ln.out \in {"ok", "injected", "length_error", "terminate", "crash", "hang"} /\ (ln.out = "injected" => ln.k[1] > 0)
  IN
  CASE op \in {"assign_copy", "assign_copy_f"} ->
         LET repl == cfg.pocca /\ ~eq
             fits == szs <= xd.cap
         IN
         { Chk("C01", "copy-assign:values", ok /\ ~self, yd.e = xs.e),
           Chk("C01", "copy-assign:source-unchanged", ~self, ys = xs),
           Chk("C01", "copy-assign:self=>no-change", self, yd = xd /\ NoEvents(ln.evs) /\ ok),
           Chk("C01", "copy-assign:throws-only-as-vector", TRUE, outOK),
           Chk("C07", "copy-assign:allocator-replaced-iff-POCCA", ok /\ ~self,
               AllocEq(cfg, yd.al, IF cfg.pocca /\ ~cfg.isStd THEN xs.al ELSE xd.al)),
           Chk("C10", "copy-assign:fits=>capacity,data-unchanged", ok /\ ~self /\ ~repl /\ fits,
               yd.cap = xd.cap /\ StN(yd) = StN(xd)),
           Chk("C04", "copy-assign:fits=>no-allocate", ok /\ ~self /\ ~repl /\ fits, Len(Allocs(ln.evs)) = 0),
           Chk("C10", "copy-assign:at-most-one-allocation", ok /\ ~self, Len(Allocs(ln.evs)) <= 1 /\ yd.cap >= szs) }
    [] op \in {"assign_move", "assign_move_f"} ->
         LET interch == cfg.isStd \/ cfg.pocma \/ eq
             must == Heap(xs) /\ xs.cap > nd /\ interch
         IN
         { Chk("C01", "move-assign:values", ok /\ ~self, yd.e = xs.e),
           Chk("C01", "move-assign:self=>no-change", self, yd = xd /\ NoEvents(ln.evs) /\ ok),
           Chk("C01", "move-assign:throws-only-as-vector", TRUE, outOK),
           Chk("C07", "move-assign:allocator-replaced-iff-POCMA", ok /\ ~self,
               AllocEq(cfg, yd.al, IF cfg.pocma /\ ~cfg.isStd THEN xs.al ELSE xd.al)),
           Chk("C07", "move-assign:source-allocator-kept", ok /\ ~self, AllocEq(cfg, ys.al, xs.al)),
           Chk("C09", "move-assign:steals-when-permitted", ok /\ ~self /\ must /\ ~cfg.vector, Stolen(cfg, pre, post, ln, d, s)),
           Chk("C04", "move-assign:steal=>no-allocate", ok /\ ~self /\ must, Len(Allocs(ln.evs)) = 0),
           \* (an assignment that must replace an unequal allocator is a listed exception of C04)
           Chk("C04", "move-assign:fits=>no-allocate", ok /\ ~self /\ (cfg.isStd \/ eq) /\ szs <= xd.cap /\ ~cfg.vector,
               Len(Allocs(ln.evs)) = 0) }
    [] op = "swap" ->
         LET interch == cfg.isStd \/ cfg.pocs \/ eq IN
         { Chk("C01", "swap:contents-exchanged", ok /\ ~self,
               yd.e = xs.e /\ ys.e = xd.e),
           Chk("C01", "swap:self=>no-change", self /\ ok, yd.e = xd.e /\ yd.cap = xd.cap /\ StN(yd) = StN(xd)),
           Chk("C01", "swap:throws-only-as-vector", TRUE, outOK),
           Chk("C07", "swap:allocators-exchanged-iff-POCS", ok /\ ~self,
               IF cfg.pocs /\ ~cfg.isStd THEN AllocEq(cfg, yd.al, xs.al) /\ AllocEq(cfg, ys.al, xd.al)
                                          ELSE AllocEq(cfg, yd.al, xd.al) /\ AllocEq(cfg, ys.al, xs.al)),
           Chk("C16", "non-member swap == member swap", ok /\ ~self /\ ln.a[1] = 1, yd.e = xs.e /\ ys.e = xd.e),
           Chk("C09", "swap:heap-buffer-of-source-handed-over", ok /\ ~self /\ interch /\ Heap(xs) /\ ~cfg.vector,
               StN(yd) = StN(xs) /\ yd.cap = xs.cap /\ (cfg.tracked => RegionUntouched(ln.evs, RegionOf(s, xs)))),
           Chk("C09", "swap:heap-buffer-of-destination-handed-over", ok /\ ~self /\ interch /\ Heap(xd) /\ ~cfg.vector,
               StN(ys) = StN(xd) /\ ys.cap = xd.cap /\ (cfg.tracked => RegionUntouched(ln.evs, RegionOf(d, xd)))),
           Chk("C04", "swap:interchangeable=>no-allocate", ok /\ ~self /\ interch, Len(Allocs(ln.evs)) = 0),
           Chk("C04", "swap:fits=>no-allocate", ok /\ ~self /\ szs <= xd.cap /\ szd <= xs.cap /\ interch, Len(Allocs(ln.evs)) = 0) }
    [] op = "append_copy" ->
         MutateChecks(cfg, pre, post, ln, d, xd.e \o xs.e, szd + szs, Opt(TRUE, FALSE, TRUE, TRUE, TRUE, szd, -1, TRUE))
         \cup { Chk("C01", "append:source-unchanged", ~self, ys = xs) }
    [] op = "append_move" ->
         MutateChecks(cfg, pre, post, ln, d, xd.e \o xs.e, szd + szs, Opt(TRUE, FALSE, TRUE, TRUE, TRUE, szd, -1, TRUE))
         \cup { Chk("C05", "append(&&):failed=>source-unchanged", ln.out = "injected" /\ StrongFault(cfg, ln), Unchanged(xs, ys)),
                Chk("C07", "append(&&):source-allocator-kept", ok, AllocEq(cfg, ys.al, xs.al)) }
    [] op = "cmp" ->
         { Chk("C16", "comparison-operators=std::vector", ok,
               ln.ret = CmpMaskF(cfg.flt, Vals(xd), Vals(xs), ln.ret >= 512)),
           Chk("C16", "comparison:never-throws,no-effect", TRUE, ok /\ yd = xd /\ ys = xs /\ NoEvents(ln.evs)) }
    [] OTHER -> { Chk("INTERNAL", "unknown-binary-op", TRUE, FALSE) }

(***************************************************************************)
(* Outcome-level checks common to every call                               *)
(***************************************************************************)
OutcomeChecks(cfg, ln) ==
  { Chk("C18", "exceptions-reach-the-caller (no terminate)", TRUE, ln.out # "terminate"),
    Chk("C06", "no-crash-or-hang-after-a-fault", ln.k[1] > 0, ln.out \notin {"crash", "hang"}),
    Chk("C03", "no-crash-or-hang", ln.k[1] = 0, ln.out \notin {"crash", "hang"}) }

IsCtor(op)     == op \in {"ctor_def", "ctor_n", "ctor_nv", "ctor_gen", "ctor_rng", "ctor_il"}
IsCtorFrom(op) == op \in {"ctor_copy", "ctor_move"}
IsBinary(op)   == op \in {"assign_copy", "assign_copy_f", "assign_move", "assign_move_f", "swap",
                          "append_copy", "append_move", "cmp"}

\* C13 (a): for a trivially copyable element type (memcpy / memmove / fill shortcuts) every C01 result
\* check must come out exactly as it does for the non-trivial twin, on the same stimuli.
TwinChecks(cfg, checks) ==
  IF cfg.tracked THEN {}
  ELSE { <<"C13", "fast-path:" \o t[2], t[3]>> : t \in {u \in checks : u[1] \in {"C01", "C11"}} }

\* All L1 checks of one logged call.  pre / post: [A, B, blocks].
\* the driver logs only a prefix of the elements of a very long container ("etrunc"): element-wise checks do not apply
Truncated(s0) == \E c \in {"A", "B"} : s0[c].p /\ "etrunc" \in DOMAIN s0[c]

OpChecksBase(cfg, pre, post, ln) ==
  OutcomeChecks(cfg, ln) \cup
  (IF Fatal(ln) THEN {}
   ELSE IF (Truncated(pre) \/ Truncated(post)) /\ ln.op # "push_n" THEN InvChecks(cfg, post, ln.can)
   ELSE (IF IsCtor(ln.op) THEN CtorChecks(cfg, pre, post, ln)
         ELSE IF IsCtorFrom(ln.op) THEN CtorFromChecks(cfg, pre, post, ln)
         ELSE IF IsBinary(ln.op) THEN BinaryChecks(cfg, pre, post, ln)
         ELSE UnaryChecks(cfg, pre, post, ln))
        \cup InvChecks(cfg, post, ln.can)
        \cup { Chk("C06", "after-a-throw:storage-invariants,nothing-leaked", ln.out = "injected",
                   \A t \in InvChecks(cfg, post, ln.can) : t[3] # 0) })

OpChecks(cfg, pre, post, ln) ==
  LET cs == OpChecksBase(cfg, pre, post, ln) IN cs \cup TwinChecks(cfg, cs)

=============================================================================
