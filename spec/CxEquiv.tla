------------------------------ MODULE CxEquiv ------------------------------
(***************************************************************************)
(* C08: the digest of a program evaluated in a constant expression (TRACE) *)
(* and the digest of the same program executed at run time (TRACE2) must   *)
(* agree on sizes, element values, return values and growth capacities.    *)
(* What the standard leaves unspecified is masked, exactly as the property *)
(* lists it: inlined() is never compared; after a move or swap the         *)
(* capacity() of the containers involved is not compared any more; the     *)
(* contents (and size) of a moved-from source are not compared until the   *)
(* source is assigned, cleared or destroyed; results computed from a       *)
(* masked container are masked too.                                        *)
(***************************************************************************)
EXTENDS Naturals, Integers, Sequences, FiniteSets, TLC, Json, IOUtils

Ct == ndJsonDeserialize(IOEnv.TRACE)
Rt == ndJsonDeserialize(IOEnv.TRACE2)

VARIABLES l, tc, te        \* tc[c]: capacity masked; te[c]: elements / size masked

None == [A |-> FALSE, B |-> FALSE]

MoveOps   == {"ctor_move", "assign_move", "assign_move_f", "append_move"}
Reassign  == {"assign_n", "assign_rng", "assign_il", "opeq_il", "clear"}
ReadsSrc  == {"assign_copy", "assign_copy_f", "append_copy", "ctor_copy", "cmp", "swap"} \cup MoveOps

Cmp(c, a, b, mc, me) ==
  IF ~a.post[c].p \/ ~b.post[c].p THEN a.post[c].p = b.post[c].p
  ELSE /\ (~me => (a.post[c].e = b.post[c].e /\ a.post[c].sz = b.post[c].sz /\ a.post[c].inlb = b.post[c].inlb))
       /\ ((~me /\ ~mc) => a.post[c].cap = b.post[c].cap)

Init == l = 2 /\ tc = None /\ te = None

Step ==
  /\ l <= Len(Ct)
  /\ IF l > Len(Rt) \/ Ct[l].t # Rt[l].t THEN
       /\ PrintT(<<"V", l, "C08", "constant-evaluated and run-time traces diverge in structure">>)
       /\ UNCHANGED <<tc, te>>
     ELSE LET a == Ct[l]
              b == Rt[l]
          IN
          IF a.t = "reset" THEN tc' = None /\ te' = None
          ELSE IF a.t # "op" THEN UNCHANGED <<tc, te>>
          ELSE
            LET d  == a.c
                s  == a.s
                bin == s # "-"
                srcMasked == bin /\ te[s]
                \* masks after this call
                te1 == [c \in {"A", "B"} |->
                          IF c = d /\ a.op \in {"dtor", "ctor_def", "ctor_n", "ctor_nv", "ctor_gen", "ctor_rng", "ctor_il"} THEN FALSE
                          ELSE IF c = d /\ a.op \in Reassign THEN FALSE
                          ELSE IF c = d /\ a.op \in {"assign_copy", "assign_copy_f", "assign_move", "assign_move_f", "ctor_copy", "ctor_move"} THEN srcMasked
                          ELSE IF c = d /\ a.op \in {"append_copy", "append_move"} THEN te[d] \/ srcMasked
                          ELSE IF a.op = "swap" /\ bin /\ c = d THEN te[s]
                          ELSE IF a.op = "swap" /\ bin /\ c = s THEN te[d]
                          ELSE IF bin /\ c = s /\ a.op \in MoveOps /\ d # s THEN TRUE
                          ELSE te[c]]
                tc1 == [c \in {"A", "B"} |->
                          IF c = d /\ a.op \in {"dtor", "ctor_def", "ctor_n", "ctor_nv", "ctor_gen", "ctor_rng", "ctor_il", "ctor_copy"} THEN FALSE
                          ELSE IF bin /\ d # s /\ c \in {d, s} /\ (a.op \in MoveOps \/ a.op = "swap") THEN TRUE
                          ELSE IF c = d /\ a.op \in {"assign_copy", "assign_copy_f", "append_copy"} THEN tc[d] \/ srcMasked
                          ELSE tc[c]]
                retMasked == te[d] \/ srcMasked
                same == /\ a.op = b.op /\ a.out = b.out /\ a.v = b.v
                        /\ (~retMasked => (a.ret = b.ret /\ a.ret2 = b.ret2))
                        /\ Cmp("A", a, b, tc1["A"], te1["A"]) /\ Cmp("B", a, b, tc1["B"], te1["B"])
            IN /\ PrintT(<<"H", l, {"C08"}>>)
               /\ (~same => PrintT(<<"V", l, "C08", "constant evaluation and run time disagree (outside the listed unspecified results)">>))
               /\ tc' = tc1 /\ te' = te1
  /\ l' = l + 1

Finish == l = Len(Ct) + 1 /\ PrintT(<<"END", Len(Ct)>>) /\ l' = l + 1 /\ UNCHANGED <<tc, te>>
Next == Step \/ Finish
Spec == Init /\ [][Next]_<<l, tc, te>>
=============================================================================
