------------------------------- MODULE Growth -------------------------------
(***************************************************************************)
(* C14, derived theorem at design level: under the WEAKEST growth policy   *)
(* the contract allows (new capacity = max(old + old div 2, old + 1), i.e. *)
(* GrowOK with equality), appending n elements one at a time from an empty *)
(* container of inline capacity N0 performs at most 2*ceil(log2 n) + 2     *)
(* allocations and relocates at most 3n + 2*ceil(log2 n) + 3 elements in total.  TLC        *)
(* evaluates the statement for every n up to MaxN and every N0 in Caps.    *)
(* (Trace validation then checks every real reallocation step against      *)
(* GrowOK and the real counters of long runs against the same bounds.)     *)
(***************************************************************************)
EXTENDS Naturals, Sequences, TLC

CONSTANTS MaxN, Caps

Max(a, b) == IF a >= b THEN a ELSE b

RECURSIVE Sim(_, _, _, _)
\* jump from one reallocation to the next: when size reaches capacity (and more is needed) reallocate
Sim(cap, target, allocs, relocs) ==
  IF cap >= target THEN <<allocs, relocs>>
  ELSE Sim(Max(cap + cap \div 2, cap + 1), target, allocs + 1, relocs + cap)

RECURSIVE Log2Ceil(_)
Log2Ceil(n) == IF n <= 1 THEN 0 ELSE 1 + Log2Ceil((n + 1) \div 2)

Theorem ==
  \A N0 \in Caps : \A n \in 1..MaxN :
    LET r == Sim(N0, n, 0, 0) IN
    /\ r[1] <= 2 * Log2Ceil(n) + 2
    /\ r[2] <= 3 * n + 2 * Log2Ceil(n) + 3     \* (the floor in old + old div 2 costs at most one element per step)

VARIABLE done
Init == done = FALSE
Next == ~done /\ Assert(Theorem, "growth theorem fails") /\ PrintT(<<"GROWTH", MaxN, Caps>>) /\ done' = TRUE
Spec == Init /\ [][Next]_done
=============================================================================
