----------------------------- MODULE SVecOrder -----------------------------
(***************************************************************************)
(* C16: exhaustive value enumeration for the value-dependent operations.   *)
(* All pairs of sequences over Alphabet up to MaxLen (comparisons) and all *)
(* sequences x values / predicates (non-member erase, erase_if).           *)
(* Design level: the comparison oracle is a strict weak / total order and  *)
(* the six operators + three-way result are mutually consistent on the     *)
(* whole domain (ASSUME-style checks evaluated by TLC).                    *)
(* Stimuli: one per pair / per (sequence, value), replayed on the real     *)
(* operators with equal and different inline capacities.                   *)
(***************************************************************************)
EXTENDS SVecOracle, TLC

CONSTANTS Alphabet, MaxLen,
          Flt        \* TRUE: the codes are floating-point values (2 = -0.0, 3 = NaN): a partial order, == is not identity

VARIABLE done

Seqs == UNION {[1..n -> Alphabet] : n \in 0..MaxLen}

Lt(a, b) == LexLess(a, b)
Le(a, b) == ~LexLess(b, a)

OrderLaws ==
  /\ \A a \in Seqs : ~Lt(a, a)
  /\ \A a, b \in Seqs : (Lt(a, b) \/ Lt(b, a) \/ a = b) /\ ~(Lt(a, b) /\ Lt(b, a))
  /\ \A a, b, c \in Seqs : (Lt(a, b) /\ Lt(b, c)) => Lt(a, c)
  /\ \A a, b \in Seqs : CmpMask(a, b, TRUE) \in {4 + 8 + 2 + 64 + 512, 1 + 8 + 32 + 128 + 512, 2 + 16 + 32 + 256 + 512}

Setup(c, s) == << <<"ctor_def", c, "-", <<0>>>>, <<"set_vals", c, "-", s>> >>

\* what is left of the laws for a partially ordered element type
PartialLaws ==
  /\ \A a, b \in Seqs : ~(LexLessF(TRUE, a, b) /\ LexLessF(TRUE, b, a))
  /\ \A a, b \in Seqs : SeqEq(TRUE, a, b) = SeqEq(TRUE, b, a)
  /\ \A a, b \in Seqs : (Cmp3(TRUE, a, b) = "lt") = (Cmp3(TRUE, b, a) = "gt")
  /\ \A a, b \in Seqs : (Cmp3(TRUE, a, b) = "un") = (Cmp3(TRUE, b, a) = "un")
  /\ \A a, b \in Seqs : SeqEq(TRUE, a, b) => Cmp3(TRUE, a, b) = "eq"
  /\ \A a, b \in Seqs : Cmp3(TRUE, a, b) = "lt" => LexLessF(TRUE, a, b)
  \* without NaNs the floating-point oracle is the integer oracle on the numbers
  /\ \A a, b \in Seqs : (\A i \in 1..Len(a) : a[i] # 3) /\ (\A i \in 1..Len(b) : b[i] # 3) =>
        LET na == [i \in 1..Len(a) |-> NumOf(TRUE, a[i])]
            nb == [i \in 1..Len(b) |-> NumOf(TRUE, b[i])]
        IN /\ CmpMaskF(TRUE, a, b, TRUE) = CmpMask(na, nb, TRUE)
           /\ CmpMaskF(TRUE, a, b, FALSE) = CmpMask(na, nb, FALSE)

Init == done = FALSE
Next ==
  /\ ~done
  /\ Assert(IF Flt THEN PartialLaws ELSE OrderLaws, "the comparison oracle is not a consistent (total / partial) order")
  /\ \A a, b \in Seqs : PrintT(<<"S", Setup("A", a) \o Setup("B", b), <<"cmp", "A", "B", <<>>>>, "ok">>)
  /\ \A a \in Seqs : PrintT(<<"S", Setup("A", a), <<"cmp", "A", "A", <<>>>>, "ok">>)
  /\ \A a \in Seqs, x \in Alphabet \cup {0} : PrintT(<<"S", Setup("A", a), <<"erase_val", "A", "-", <<x>>>>, "ok">>)
  \* values of another type: equal to the element value x (1), or equal to nothing but converting to x (2)
  /\ \A a \in Seqs, x \in Alphabet \cup {0}, h \in 1..2 : PrintT(<<"S", Setup("A", a), <<"erase_val", "A", "-", <<x, h>>>>, "ok">>)
  /\ \A a \in Seqs, k \in 0..3 : PrintT(<<"S", Setup("A", a), <<"erase_if", "A", "-", <<k, 2>>>>, "ok">>)
  /\ done' = TRUE
Spec == Init /\ [][Next]_done
=============================================================================
