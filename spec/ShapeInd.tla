------------------------------ MODULE ShapeInd ------------------------------
(***************************************************************************)
(* Integer-only shape abstraction of one container, for UNBOUNDED inline   *)
(* capacity, size and capacity: the storage invariant of C02 (shape part)  *)
(* is INDUCTIVE under the growth / shrink / steal policy of the code.      *)
(* Checked with Apalache:  Init => Inv  and  Inv /\ Next => Inv'.          *)
(* (TLC covers the same policy, with contents, within small bounds; this   *)
(* removes the bound for the integer part.)                                *)
(***************************************************************************)
EXTENDS Integers, ShapeRel

CONSTANTS
  \* @type: Int;
  N,        \* inline capacity
  \* @type: Int;
  MaxSz     \* max_size()

VARIABLES
  \* @type: Int;
  sz,
  \* @type: Int;
  cap,
  \* @type: Bool;
  heap

ConstInit == N \in Int /\ MaxSz \in Int /\ N >= 0 /\ MaxSz >= 1 /\ MaxSz >= N

Max(a, b) == IF a >= b THEN a ELSE b

\* unchecked_calculate_new_capacity (2813)
Grow(c, req) == IF MaxSz - c <= c THEN MaxSz ELSE Max(2 * c, req)

Inv ==
  /\ 0 <= sz /\ sz <= cap
  /\ cap >= N
  /\ cap <= MaxSz
  /\ heap <=> (cap > N)

Init == sz = 0 /\ cap = N /\ heap = FALSE

\* an arbitrary state satisfying the invariant (initial predicate of the inductive step)
IndInit == sz \in Int /\ cap \in Int /\ heap \in BOOLEAN /\ Inv

\* any growing call asking for a resulting size / capacity req (push_back, insert, append, resize, assign, reserve)
GrowTo(req, newsz) ==
  /\ req >= 0 /\ newsz >= 0 /\ newsz <= req
  /\ req <= MaxSz                                   \* otherwise length_error, no effect
  /\ IF req <= cap
       THEN /\ cap' = cap /\ heap' = heap
            /\ sz' = newsz
       ELSE /\ cap' = Grow(cap, req)
            /\ heap' = TRUE
            /\ sz' = newsz

Shrink ==                                           \* shrink_to_fit
  /\ sz' = sz
  /\ IF heap /\ sz < cap
       THEN /\ cap' = Max(sz, N) /\ heap' = (sz > N)
       ELSE /\ cap' = cap /\ heap' = heap

EraseTo(newsz) == newsz >= 0 /\ newsz <= sz /\ sz' = newsz /\ cap' = cap /\ heap' = heap

\* receive a stolen heap buffer (move / swap): only buffers with capacity > N are ever taken
Steal(s2, c2) == s2 >= 0 /\ s2 <= c2 /\ c2 > N /\ c2 <= MaxSz /\ sz' = s2 /\ cap' = c2 /\ heap' = TRUE

\* be stolen from / collapse to the inline buffer with contents that fit
ToInline(s2) == s2 >= 0 /\ s2 <= N /\ sz' = s2 /\ cap' = N /\ heap' = FALSE

\* exact-fit reallocation (copy construction / allocator-replacing assignment): n > N
Exact(n) == n > N /\ n <= MaxSz /\ sz' = n /\ cap' = n /\ heap' = TRUE

Next ==
  \/ \E req \in Int : \E newsz \in Int : GrowTo(req, newsz)
  \/ Shrink
  \/ \E k \in Int : EraseTo(k)
  \/ \E s2 \in Int : \E c2 \in Int : Steal(s2, c2)
  \/ \E s2 \in Int : ToInline(s2)
  \/ \E n \in Int : Exact(n)

Spec == Init /\ [][Next]_<<sz, cap, heap>>

\* the closed form (spec/ShapeRel.tla) that the model checker asserts on its transitions and that recorded executions
\* of the code are validated against: the invariant is inductive under it as well, and it contains Next
NextClosed == StepClosed(N, MaxSz, "binary", sz, cap, heap, sz', cap', heap')
NextInClosed == NextClosed      \* action invariant of Spec (checked from IndInit over one step of Next)
\* the same relation in assignment form, as a next-state relation of its own
NextClosedA == \E s2 \in Int : \E c2 \in Int : \E h2 \in BOOLEAN :
                 StepClosed(N, MaxSz, "binary", sz, cap, heap, s2, c2, h2) /\ sz' = s2 /\ cap' = c2 /\ heap' = h2
=============================================================================
