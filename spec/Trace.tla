------------------------------- MODULE Trace -------------------------------
(***************************************************************************)
(* Trace validation: every line recorded from the real small_vector is     *)
(* checked against the L1 contract (SVec) and the L0 machine (SVecMem).    *)
(* The spec state is the abstract state of the two container slots and the *)
(* allocator ledger; the pre-state of a call is the state the spec carried *)
(* forward, the post-state is what the probe saw after the call.           *)
(* Violations are data: every failed check is printed as                   *)
(*   <<"V", lineNumber, property, checkName>>                              *)
(* and the state is re-bound to the logged post-state, so one pass reports *)
(* every violation of every property, each attributed to its line.         *)
(* <<"H", lineNumber, {properties whose antecedent held}>> measures        *)
(* non-vacuity.  <<"END", n>> proves the whole trace was consumed.         *)
(***************************************************************************)
EXTENDS SVecMem, Json, IOUtils

TraceLog == ndJsonDeserialize(IOEnv.TRACE)
Cfg == TraceLog[1]

VARIABLES l, st,
          seen      \* {<<property, check name>>} whose antecedent held on some line so far (non-vacuity per conjunct)

Absent == [p |-> FALSE]
Empty  == [A |-> Absent, B |-> Absent, blocks |-> <<>>]

StateOf(ln) == [A |-> ln.post.A, B |-> ln.post.B, blocks |-> ln.blocks]

Report(checks) ==
  LET bad  == {t \in checks : t[3] = 0}
      hits == {t[1] : t \in {u \in checks : u[3] # 2}}
  IN  /\ \A t \in bad : PrintT(<<"V", l, t[1], t[2]>>)
      /\ (hits # {} => PrintT(<<"H", l, hits>>))

NonVacuous(checks) == {<<t[1], t[2]>> : t \in {u \in checks : u[3] # 2}}

Init == l = 1 /\ st = Empty /\ seen = {}

Step ==
  /\ l <= Len(TraceLog)
  /\ LET ln == TraceLog[l] IN
     CASE ln.t = "op" ->
            LET post == IF Fatal(ln) THEN Empty ELSE StateOf(ln) IN
            /\ LET l1 == OpChecks(Cfg, st, post, ln)
                   l0 == MemChecks(Cfg, st, post, ln)
                   all == l1 \cup l0 \cup StrongLeakChecks(l1, l0)
               IN  Report(all) /\ seen' = seen \cup NonVacuous(all)
            /\ st' = post
       [] ln.t = "snap" ->
            /\ LET all == InvChecks(Cfg, StateOf(ln), ln.can) IN Report(all) /\ seen' = seen \cup NonVacuous(all)
            /\ st' = StateOf(ln)
       [] ln.t = "reset" -> st' = Empty /\ seen' = seen
       [] ln.t = "fatal" ->
            \* the process died between calls (e.g. the C library found its heap corrupted): an earlier call of
            \* this history wrote outside its storage
            /\ Report({<<"C02", "process died between calls (memory corrupted by an earlier call)", 0>>,
                       <<"C12", "process died between calls (memory corrupted by an earlier call)", 0>>})
            /\ st' = Empty /\ seen' = seen
       [] OTHER -> st' = st /\ seen' = seen
  /\ l' = l + 1

Finish == l = Len(TraceLog) + 1 /\ PrintT(<<"NAMES", seen>>) /\ PrintT(<<"END", Len(TraceLog)>>) /\ l' = l + 1 /\ st' = st /\ seen' = seen

Next == Step \/ Finish
Spec == Init /\ [][Next]_<<l, st, seen>>
=============================================================================
