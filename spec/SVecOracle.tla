---------------------------- MODULE SVecOracle ----------------------------
(***************************************************************************)
(* Pure operators: the sequence semantics of std::vector (what C01 calls   *)
(* "the same results as std::vector"), lexicographic comparison (C16),     *)
(* remove / remove_if (C16) and integral conversion (C13).                 *)
(* Positions are 0-based as in the C++ API; sequences are 1-based TLA+.    *)
(***************************************************************************)
EXTENDS Naturals, Integers, Sequences, FiniteSets

Max(a, b) == IF a >= b THEN a ELSE b
Min(a, b) == IF a <= b THEN a ELSE b

Rep(n, v) == [i \in 1..n |-> v]

\* insert the sequence t before 0-based position pos
InsertAt(s, pos, t) == SubSeq(s, 1, pos) \o t \o SubSeq(s, pos + 1, Len(s))

\* erase the half-open 0-based range [f, l)
EraseRange(s, f, l) == SubSeq(s, 1, f) \o SubSeq(s, l + 1, Len(s))

ResizeTo(s, n, v) == IF n <= Len(s) THEN SubSeq(s, 1, n) ELSE s \o Rep(n - Len(s), v)

\* std::lexicographical_compare
RECURSIVE LexLessFrom(_, _, _)
LexLessFrom(a, b, i) ==
  IF i > Len(b) THEN FALSE
  ELSE IF i > Len(a) THEN TRUE
  ELSE IF a[i] < b[i] THEN TRUE
  ELSE IF b[i] < a[i] THEN FALSE
  ELSE LexLessFrom(a, b, i + 1)
LexLess(a, b) == LexLessFrom(a, b, 1)

\* the bitmask the driver reports for  == != < <= > >=  (1 2 4 8 16 32)
\* and, when the three-way operator exists, lt eq gt (64 128 256) + marker 512
CmpMask(a, b, threeway) ==
  LET eq == a = b
      lt == LexLess(a, b)
      gt == LexLess(b, a)
  IN  (IF eq THEN 1 ELSE 0) + (IF ~eq THEN 2 ELSE 0) + (IF lt THEN 4 ELSE 0)
    + (IF ~gt THEN 8 ELSE 0) + (IF gt THEN 16 ELSE 0) + (IF ~lt THEN 32 ELSE 0)
    + (IF threeway THEN (IF lt THEN 64 ELSE 0) + (IF eq THEN 128 ELSE 0)
                        + (IF gt THEN 256 ELSE 0) + 512 ELSE 0)

RemoveIf(s, P(_)) == SelectSeq(s, LAMBDA x : ~P(x))
CountIf(s, P(_)) == Len(s) - Len(RemoveIf(s, P))

\* predicate kinds used by the driver's erase_if: 0 none, 1 all, 2 odd, 3 value < thr
PredHolds(kind, thr, x) ==
  \/ kind = 1
  \/ kind = 2 /\ x % 2 = 1
  \/ kind = 3 /\ x < thr

\* C13: static_cast between integral types.  A type is <<bits, signed>>; x is the mathematical
\* value of the source.  Result: the unique value of the destination type congruent to x mod 2^bits.
Pow2(n) == IF n = 0 THEN 1 ELSE IF n = 8 THEN 256 ELSE IF n = 16 THEN 65536 ELSE IF n = 1 THEN 2 ELSE 16777216
ConvInt(x, bits, signed) ==
  LET m == Pow2(bits)
      r == x % m
  IN  IF signed /\ r >= m \div 2 THEN r - m ELSE r
ConvBool(x) == IF x = 0 THEN 0 ELSE 1

=============================================================================
