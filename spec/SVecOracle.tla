---------------------------- MODULE SVecOracle ----------------------------
(***************************************************************************)
(* Pure operators: the sequence semantics of std::vector (what C01 calls   *)
(* "the same results as std::vector"), lexicographic comparison (C16),     *)
(* remove / remove_if (C16) and integral conversion (C13).                 *)
(* Positions are 0-based as in the C++ API; sequences are 1-based TLA+.    *)
(***************************************************************************)
EXTENDS Naturals, Integers, Sequences, FiniteSets

Max(a, b) == IF a >= b THEN a ELSE b
Min(a, b) == IF a <= b THEN a ELSE b

Rep(n, v) == [i \in 1..n |-> v]

\* insert the sequence t before 0-based position pos
InsertAt(s, pos, t) == SubSeq(s, 1, pos) \o t \o SubSeq(s, pos + 1, Len(s))

\* erase the half-open 0-based range [f, l)
EraseRange(s, f, l) == SubSeq(s, 1, f) \o SubSeq(s, l + 1, Len(s))

ResizeTo(s, n, v) == IF n <= Len(s) THEN SubSeq(s, 1, n) ELSE s \o Rep(n - Len(s), v)

\* std::lexicographical_compare
RECURSIVE LexLessFrom(_, _, _)
LexLessFrom(a, b, i) ==
  IF i > Len(b) THEN FALSE
  ELSE IF i > Len(a) THEN TRUE
  ELSE IF a[i] < b[i] THEN TRUE
  ELSE IF b[i] < a[i] THEN FALSE
  ELSE LexLessFrom(a, b, i + 1)
LexLess(a, b) == LexLessFrom(a, b, 1)

\* Element comparison.  flt = FALSE: the elements are totally ordered integers.  flt = TRUE: IEEE floating point,
\* where value code 2 stands for -0.0 (equal to code 0 = +0.0 although the bytes differ) and code 3 for a NaN
\* (not equal to itself, not ordered with anything); every other code is the number itself.
NumOf(flt, x)      == IF flt /\ x = 2 THEN 0 ELSE x
IsNaN(flt, x)      == flt /\ x = 3
ElemEq(flt, x, y)  == ~IsNaN(flt, x) /\ ~IsNaN(flt, y) /\ NumOf(flt, x) = NumOf(flt, y)
ElemLt(flt, x, y)  == ~IsNaN(flt, x) /\ ~IsNaN(flt, y) /\ NumOf(flt, x) < NumOf(flt, y)
ElemCmp3(flt, x, y) == IF IsNaN(flt, x) \/ IsNaN(flt, y) THEN "un"
                       ELSE IF NumOf(flt, x) < NumOf(flt, y) THEN "lt" ELSE IF NumOf(flt, y) < NumOf(flt, x) THEN "gt" ELSE "eq"
SeqEq(flt, a, b)   == Len(a) = Len(b) /\ \A i \in 1..Len(a) : ElemEq(flt, a[i], b[i])
\* std::lexicographical_compare with the element's operator<
RECURSIVE LexLessFromF(_, _, _, _)
LexLessFromF(flt, a, b, i) ==
  IF i > Len(b) THEN FALSE
  ELSE IF i > Len(a) THEN TRUE
  ELSE IF ElemLt(flt, a[i], b[i]) THEN TRUE
  ELSE IF ElemLt(flt, b[i], a[i]) THEN FALSE
  ELSE LexLessFromF(flt, a, b, i + 1)
LexLessF(flt, a, b) == LexLessFromF(flt, a, b, 1)
\* std::lexicographical_compare_three_way: the first pair of elements that is not equivalent decides (possibly "unordered")
RECURSIVE Cmp3From(_, _, _, _)
Cmp3From(flt, a, b, i) ==
  IF i > Len(a) /\ i > Len(b) THEN "eq"
  ELSE IF i > Len(a) THEN "lt"
  ELSE IF i > Len(b) THEN "gt"
  ELSE LET c == ElemCmp3(flt, a[i], b[i]) IN IF c # "eq" THEN c ELSE Cmp3From(flt, a, b, i + 1)
Cmp3(flt, a, b) == Cmp3From(flt, a, b, 1)

\* the bitmask the driver reports for  == != < <= > >=  (1 2 4 8 16 32)
\* and, when the three-way operator exists, lt eq gt (64 128 256) + marker 512.
\* std::vector before C++20:  a <= b is !(b < a), a >= b is !(a < b), a > b is b < a (lexicographical_compare);
\* from C++20 the four relational operators are rewritten from <=> (an unordered result makes all four false).
CmpMaskF(flt, a, b, threeway) ==
  LET eq == SeqEq(flt, a, b)
      c3 == Cmp3(flt, a, b)
      lt == IF threeway THEN c3 = "lt" ELSE LexLessF(flt, a, b)
      gt == IF threeway THEN c3 = "gt" ELSE LexLessF(flt, b, a)
      le == IF threeway THEN c3 \in {"lt", "eq"} ELSE ~gt
      ge == IF threeway THEN c3 \in {"gt", "eq"} ELSE ~lt
  IN  (IF eq THEN 1 ELSE 0) + (IF ~eq THEN 2 ELSE 0) + (IF lt THEN 4 ELSE 0)
    + (IF le THEN 8 ELSE 0) + (IF gt THEN 16 ELSE 0) + (IF ge THEN 32 ELSE 0)
    + (IF threeway THEN (IF c3 = "lt" THEN 64 ELSE 0) + (IF c3 = "eq" THEN 128 ELSE 0)
                        + (IF c3 = "gt" THEN 256 ELSE 0) + 512 ELSE 0)
CmpMask(a, b, threeway) == CmpMaskF(FALSE, a, b, threeway)

RemoveIf(s, P(_)) == SelectSeq(s, LAMBDA x : ~P(x))
CountIf(s, P(_)) == Len(s) - Len(RemoveIf(s, P))

\* predicate kinds used by the driver's erase_if: 0 none, 1 all, 2 odd, 3 value < thr
PredHolds(kind, thr, x) ==
  \/ kind = 1
  \/ kind = 2 /\ x % 2 = 1
  \/ kind = 3 /\ x < thr

\* C13: static_cast between integral types.  A type is <<bits, signed>>; x is the mathematical
\* value of the source.  Result: the unique value of the destination type congruent to x mod 2^bits.
Pow2(n) == IF n = 0 THEN 1 ELSE IF n = 8 THEN 256 ELSE IF n = 16 THEN 65536 ELSE IF n = 1 THEN 2 ELSE 16777216
ConvInt(x, bits, signed) ==
  LET m == Pow2(bits)
      r == x % m
  IN  IF signed /\ r >= m \div 2 THEN r - m ELSE r
ConvBool(x) == IF x = 0 THEN 0 ELSE 1

=============================================================================
