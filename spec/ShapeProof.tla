----------------------------- MODULE ShapeProof -----------------------------
(***************************************************************************)
(* TLAPS proof that the shape invariant of ShapeInd is inductive (same     *)
(* definitions, restated without Apalache annotations).                    *)
(***************************************************************************)
EXTENDS Integers, TLAPS

CONSTANTS N, MaxSz
VARIABLES sz, cap, heap

ASSUME ConstAssump == N \in Int /\ MaxSz \in Int /\ N >= 0 /\ MaxSz >= 1 /\ MaxSz >= N

Max(a, b) == IF a >= b THEN a ELSE b
Grow(c, req) == IF MaxSz - c <= c THEN MaxSz ELSE Max(2 * c, req)

TypeOK == sz \in Int /\ cap \in Int /\ heap \in BOOLEAN
Inv ==
  /\ TypeOK
  /\ 0 <= sz /\ sz <= cap
  /\ cap >= N
  /\ cap <= MaxSz
  /\ heap <=> (cap > N)

Init == sz = 0 /\ cap = N /\ heap = FALSE

GrowTo(req, newsz) ==
  /\ req \in Int /\ newsz \in Int
  /\ req >= 0 /\ newsz >= 0 /\ newsz <= req
  /\ req <= MaxSz
  /\ IF req <= cap
       THEN /\ cap' = cap /\ heap' = heap /\ sz' = newsz
       ELSE /\ cap' = Grow(cap, req) /\ heap' = TRUE /\ sz' = newsz

Shrink ==
  /\ sz' = sz
  /\ IF heap /\ sz < cap
       THEN /\ cap' = Max(sz, N) /\ heap' = (sz > N)
       ELSE /\ cap' = cap /\ heap' = heap

EraseTo(newsz) == newsz \in Int /\ newsz >= 0 /\ newsz <= sz /\ sz' = newsz /\ cap' = cap /\ heap' = heap
Steal(s2, c2) == s2 \in Int /\ c2 \in Int /\ s2 >= 0 /\ s2 <= c2 /\ c2 > N /\ c2 <= MaxSz /\ sz' = s2 /\ cap' = c2 /\ heap' = TRUE
ToInline(s2) == s2 \in Int /\ s2 >= 0 /\ s2 <= N /\ sz' = s2 /\ cap' = N /\ heap' = FALSE
Exact(n) == n \in Int /\ n > N /\ n <= MaxSz /\ sz' = n /\ cap' = n /\ heap' = TRUE

Next ==
  \/ \E req \in Int : \E newsz \in Int : GrowTo(req, newsz)
  \/ Shrink
  \/ \E k \in Int : EraseTo(k)
  \/ \E s2 \in Int : \E c2 \in Int : Steal(s2, c2)
  \/ \E s2 \in Int : ToInline(s2)
  \/ \E n \in Int : Exact(n)

vars == <<sz, cap, heap>>
Spec == Init /\ [][Next]_vars

THEOREM InitInv == Init => Inv
  BY ConstAssump DEF Init, Inv, TypeOK

THEOREM NextInv == Inv /\ [Next]_vars => Inv'
<1> SUFFICES ASSUME Inv, [Next]_vars PROVE Inv'
  OBVIOUS
<1> USE ConstAssump
<1>1. CASE UNCHANGED vars
  BY <1>1 DEF Inv, TypeOK, vars
<1>2. ASSUME NEW req \in Int, NEW newsz \in Int, GrowTo(req, newsz) PROVE Inv'
  BY <1>2 DEF Inv, TypeOK, GrowTo, Grow, Max
<1>3. CASE Shrink
  BY <1>3 DEF Inv, TypeOK, Shrink, Max
<1>4. ASSUME NEW k \in Int, EraseTo(k) PROVE Inv'
  BY <1>4 DEF Inv, TypeOK, EraseTo
<1>5. ASSUME NEW s2 \in Int, NEW c2 \in Int, Steal(s2, c2) PROVE Inv'
  BY <1>5 DEF Inv, TypeOK, Steal
<1>6. ASSUME NEW s2 \in Int, ToInline(s2) PROVE Inv'
  BY <1>6 DEF Inv, TypeOK, ToInline
<1>7. ASSUME NEW n \in Int, Exact(n) PROVE Inv'
  BY <1>7 DEF Inv, TypeOK, Exact
<1> QED
  BY <1>1, <1>2, <1>3, <1>4, <1>5, <1>6, <1>7 DEF Next

THEOREM Safety == Spec => []Inv
  BY InitInv, NextInv, PTL DEF Spec
=============================================================================
