SPECIFICATION Spec
CONSTANTS
  NA = 2
  NB = 2
  Profile = "one"
  MaxLen = 4
  MaxCnt = 2
  MaxCap = 16
  MaxSize = 1000
  IsStd = FALSE
  POCCA = FALSE
  POCMA = FALSE
  POCS = FALSE
  AE = FALSE
  SOCCC = 0
  Copyable = TRUE
  NothrowMove = TRUE
  AllocIds = {0}
  Kinds = {0, 1, 3, 4}
VIEW View
CONSTRAINT Bound
INVARIANT InvStorage
INVARIANT InvNeverBigNeverAllocates
CHECK_DEADLOCK FALSE
