----------------------------- MODULE ImplTrace -----------------------------
(***************************************************************************)
(* Conformance of L2 (SVecImpl) to the code: for every recorded call of a  *)
(* modelled routine the line PREDICTED by executing the L2 script on the   *)
(* recorded pre-state (same arguments, same fault indices) is compared     *)
(* with the recorded line: same events in the same order, same outcome,    *)
(* same return value, same number of fallible steps, same post-state.      *)
(* A mismatch is reported as <<"D", line, what>> -- SPEC-DRIFT: L2 is more *)
(* specific than the properties, so drift is never a property violation;   *)
(* it only withdraws the design-level (MC_Impl) part of the claim.         *)
(***************************************************************************)
EXTENDS SVecImpl, Json, IOUtils

TraceLog == ndJsonDeserialize(IOEnv.TRACE)
Cfg == TraceLog[1]

VARIABLES l, st

Absent == [p |-> FALSE]
Empty  == [A |-> Absent, B |-> Absent, blocks |-> <<>>]
StateOf(ln) == [A |-> ln.post.A, B |-> ln.post.B, blocks |-> ln.blocks]

FirstAlloc(evs) == LET idx == {j \in 1..Len(evs) : evs[j][1] = 4} IN
                   IF idx = {} THEN 0 ELSE evs[CHOOSE j \in idx : \A j2 \in idx : j <= j2][2] - 10

Applicable(ln) == /\ ln.t = "op" /\ ~Fatal(ln) /\ ln.op \in Modelled /\ RangeKindOK(ln)
                  /\ Cfg.tracked /\ ~Cfg.vector /\ ~ln.evtrunc

Diff(p, a) ==
  (IF p.out # a.out THEN {"outcome"} ELSE {})
  \cup (IF p.evs # a.evs THEN {"events"} ELSE {})
  \cup (IF p.nf # a.nf THEN {"fallible-step-count"} ELSE {})
  \cup (IF p.ret # a.ret \/ p.ret2 # a.ret2 THEN {"return"} ELSE {})
  \cup (IF p.post.A # a.post.A \/ p.post.B # a.post.B THEN {"post-state"} ELSE {})
  \cup (IF p.blocks # a.blocks THEN {"blocks"} ELSE {})

\* the recorded transition of each container is a step of the (unbounded, proved) shape model -- spec/ShapeRel.tla
Shp(s0, c) == IF s0[c].p THEN <<s0[c].sz, s0[c].cap, StN(s0[c]) > 0>> ELSE <<0, NOf(Cfg, c), FALSE>>
ShapeStepOK(pre, post, c, op) ==
  \/ ~post[c].p \/ Cfg.max < NOf(Cfg, c) \/ Cfg.vector
  \/ StepClosed(NOf(Cfg, c), Cfg.max, StepClass(op), Shp(pre, c)[1], Shp(pre, c)[2], Shp(pre, c)[3], Shp(post, c)[1], Shp(post, c)[2], Shp(post, c)[3])

Init == l = 2 /\ st = Empty
Step ==
  /\ l <= Len(TraceLog)
  /\ LET ln == TraceLog[l] IN
     CASE ln.t = "op" ->
            /\ IF Applicable(ln) /\ st[ln.c].p = (ln.op \notin {"ctor_def", "ctor_n", "ctor_nv", "ctor_gen", "ctor_rng", "ctor_il", "ctor_copy", "ctor_move"})
                  /\ (ln.s = "-" \/ st[ln.s].p)
               THEN LET fa == FirstAlloc(ln.evs)
                        ln2 == IF fa > 0 THEN [ln EXCEPT !.id = ln.id] @@ [newid |-> fa] ELSE ln
                        p == Exec(Cfg, st, ln2)
                        d == Diff(p, ln)
                    IN /\ PrintT(<<"H", l, {"L2"}>>)
                       /\ (d # {} => PrintT(<<"D", l, ln.op, d>>))
               ELSE TRUE
            /\ (~Fatal(ln) /\ ~(ShapeStepOK(st, StateOf(ln), "A", ln.op) /\ ShapeStepOK(st, StateOf(ln), "B", ln.op))
                  => PrintT(<<"D", l, ln.op, {"shape-step-outside-ShapeInd"}>>))
            /\ st' = IF Fatal(ln) THEN Empty ELSE StateOf(ln)
       [] ln.t = "snap" -> st' = StateOf(ln)
       [] ln.t = "reset" -> st' = Empty
       [] OTHER -> st' = st
  /\ l' = l + 1
Finish == l = Len(TraceLog) + 1 /\ PrintT(<<"END", Len(TraceLog)>>) /\ l' = l + 1 /\ st' = st
Next == Step \/ Finish
Spec == Init /\ [][Next]_<<l, st>>
=============================================================================
