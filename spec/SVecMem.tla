------------------------------ MODULE SVecMem ------------------------------
(***************************************************************************)
(* L0 -- object / block / iterator lifetime machine (C03, C04, C15, C12).  *)
(*                                                                         *)
(* The driver logs, for every public call, the raw events that happened    *)
(* inside it.  An event is a 6-tuple  <<code, r, i, kind, fr, fi>>:        *)
(*   code 1 construct, 2 assign, 3 destroy element object at cell <<r,i>>; *)
(*        kind%16: 0 default/value-init, 1 copy, 2 move, 3 from a value;   *)
(*        kind>=16: the driver's magic-word check saw a dead object;       *)
(*        <<fr,fi>> = source cell for copy / move                          *)
(*   code 4 allocate   <<4, 10+id, n, aid, _, _>>                          *)
(*   code 5 deallocate <<5, 10+id | 0 (pointer unknown), n | -1, aid, ..>> *)
(*   code 6 dereference, 7 increment of a caller iterator:                 *)
(*        r = 0 single-pass: <<_, 0, ownPos, sharedCursor, len, _>>        *)
(*        r = 9 multi-pass iterator used at / beyond `last`                *)
(*   code 8 generator call <<8, 0, j, ...>>, j = number of earlier calls   *)
(* Regions: 1 / 2 inline buffer of A / B, 10+b allocator block b, 3 any    *)
(* other memory (temporaries; i = per-call id), 4 caller-owned objects.    *)
(*                                                                         *)
(* Each event's PRECONDITION is the property; a failed precondition is     *)
(* recorded as <<property, name>> and the machine goes on.                 *)
(***************************************************************************)
EXTENDS SVec

Cells(c, x) == {<<RegionOf(c, x), i>> : i \in 0..(Len(x.e) - 1)}

\* machine state implied by a quiescent container state (element objects are only visible for the
\* instrumented element flavours)
MemOf(cfg, st) ==
  [ live |-> IF cfg.tracked THEN UNION { IF st[c].p THEN Cells(c, st[c]) ELSE {} : c \in {"A", "B"} } ELSE {},
    blk  |-> { <<st.blocks[j][1], st.blocks[j][2], st.blocks[j][3]>> : j \in 1..Len(st.blocks) },
    cur  |-> 0, derefd |-> FALSE, gen |-> 0,
    errs |-> {} ]

Tracked(r) == r \in {1, 2, 3} \/ r >= 10

InStorage(cfg, m, r, i) ==
  CASE r = 1 -> i >= 0 /\ i < cfg.na
    [] r = 2 -> i >= 0 /\ i < cfg.nb
    [] r >= 10 -> \E b \in m.blk : b[1] = r - 10 /\ i >= 0 /\ i < b[2]
    [] OTHER -> TRUE

Err(m, cond, p, n) == IF cond THEN {<<p, n>>} ELSE {}

StepEv(cfg, m, e) ==
  LET code == e[1]
      t    == <<e[2], e[3]>>
      kind == e[4] % 16
      dead == e[4] >= 16
      src  == <<e[5], e[6]>>
      srcDead == kind \in {1, 2} /\ Tracked(e[5]) /\ src \notin m.live
  IN
  CASE code = 1 ->
         [m EXCEPT !.live = IF Tracked(e[2]) THEN @ \cup {t} ELSE @,
                   !.errs = @ \cup Err(m, Tracked(e[2]) /\ t \in m.live, "C03", "construct-over-a-live-element")
                              \cup Err(m, ~InStorage(cfg, m, e[2], e[3]), "C03", "construct-outside-owned-storage")
                              \cup Err(m, ~InStorage(cfg, m, e[2], e[3]), "C12", "write-past-obtained-storage")
                              \cup Err(m, srcDead \/ dead, "C03", "read-from-dead-element")]
    [] code = 2 ->
         [m EXCEPT !.errs = @ \cup Err(m, Tracked(e[2]) /\ t \notin m.live, "C03", "assign-to-dead-storage")
                              \cup Err(m, srcDead \/ dead, "C03", "read-from-dead-element")]
    [] code = 3 ->
         [m EXCEPT !.live = @ \ {t},
                   !.errs = @ \cup Err(m, (Tracked(e[2]) /\ t \notin m.live) \/ dead, "C03", "destroy-dead-storage")]
    [] code = 4 ->
         [m EXCEPT !.blk = @ \cup {<<e[2] - 10, e[3], e[4]>>},
                   !.errs = @ \cup Err(m, e[3] > cfg.max, "C12", "allocate-more-than-max_size")]
    [] code = 5 ->
         LET id == e[2] - 10
             bs == {b \in m.blk : b[1] = id}
         IN
         IF e[2] = 0 THEN [m EXCEPT !.errs = @ \cup {<<"C04", "deallocate-pointer-not-from-allocate">>}]
         ELSE IF bs = {} THEN [m EXCEPT !.errs = @ \cup {<<"C04", "deallocate-twice">>}]
         ELSE LET b == CHOOSE bb \in bs : TRUE IN
              [m EXCEPT !.blk = @ \ bs,
                        !.live = {cell \in @ : cell[1] # e[2]},
                        !.errs = @ \cup Err(m, e[3] # -1 /\ e[3] # b[2], "C04", "deallocate-with-different-count")
                                   \cup Err(m, ~AllocEq(cfg, e[4], b[3]), "C04", "deallocate-through-unequal-allocator")
                                   \cup Err(m, \E cell \in m.live : cell[1] = e[2], "C03", "deallocate-under-live-elements")]
    [] code = 6 ->
         IF e[2] = 9 THEN [m EXCEPT !.errs = @ \cup {<<"C15", "dereference-at-or-beyond-last">>}]
         ELSE [m EXCEPT !.derefd = TRUE,
                        !.errs = @ \cup Err(m, e[3] # e[4], "C15", "stale-copy-of-advanced-iterator-used")
                                   \cup Err(m, e[4] >= e[5], "C15", "dereference-at-or-beyond-last")
                                   \cup Err(m, m.derefd /\ e[4] = m.cur, "C15", "position-dereferenced-twice")]
    [] code = 7 ->
         IF e[2] = 9 THEN [m EXCEPT !.errs = @ \cup {<<"C15", "advance-beyond-last">>}]
         ELSE [m EXCEPT !.cur = e[4] + 1, !.derefd = FALSE,
                        !.errs = @ \cup Err(m, e[3] # e[4], "C15", "stale-copy-of-advanced-iterator-used")
                                   \cup Err(m, e[4] >= e[5], "C15", "advance-beyond-last")
                                   \cup Err(m, ~m.derefd, "C15", "position-skipped-without-dereference")]
    [] code = 8 ->
         [m EXCEPT !.gen = @ + 1,
                   !.errs = @ \cup Err(m, e[3] # m.gen, "C15", "generator-called-out-of-order")]
    [] OTHER -> [m EXCEPT !.errs = @ \cup {<<"INTERNAL", "unknown-event">>}]

RECURSIVE RunEvs(_, _, _, _)
RunEvs(cfg, m, evs, j) == IF j > Len(evs) THEN m ELSE RunEvs(cfg, StepEv(cfg, m, evs[j]), evs, j + 1)

\* C03 / C04 at the quiescent point after the call
QuiesceErrs(cfg, m, post) ==
  LET want == MemOf(cfg, post) IN
    Err(m, cfg.tracked /\ (m.live \ want.live) # {}, "C03", "live-objects-outside-size()-elements (leaked / temporaries alive)")
    \cup Err(m, cfg.tracked /\ (want.live \ m.live) # {}, "C03", "element-within-size()-is-not-a-live-object")
    \cup Err(m, m.blk # want.blk, "C04", "allocate/deallocate-events-do-not-add-up-to-the-live-blocks")

\* L0 verdicts of one call, as checks in the L1 format
MemChecks(cfg, pre, post, ln) ==
  IF Fatal(ln) \/ ln.evtrunc \/ Truncated(pre) \/ Truncated(post) THEN {}
  ELSE LET m    == RunEvs(cfg, MemOf(cfg, pre), ln.evs, 1)
           errs == m.errs \cup QuiesceErrs(cfg, m, post)
           has(S) == \E j \in 1..Len(ln.evs) : ln.evs[j][1] \in S
           used == (IF has({1, 2, 3}) THEN {"C03"} ELSE {})
                   \cup (IF has({4, 5}) THEN {"C04", "C12"} ELSE {})
                   \cup (IF has({6, 7, 8}) THEN {"C15"} ELSE {})
       IN  { <<e[1], e[2], 0>> : e \in errs }
           \cup { <<p, "event-machine", 1>> : p \in {q \in used : \A e \in errs : e[1] # q} }
           \cup { Chk("C06", "after-a-throw:exactly-size()-live-elements,no-block-leaked", ln.out = "injected",
                      \A e \in errs : e[1] \notin {"C03", "C04"}) }

\* C05 promises more than unchanged contents: "... and nothing leaked".  Where L1 saw a strong call fail (the antecedent of
\* strong:elements-unchanged held), the L0 verdict on that very call -- no object outside size(), no block without owner --
\* is also a C05 verdict.  l1 / l0 are the check sets of the line.
StrongLeakChecks(l1, l0) ==
  IF l0 # {} /\ (\E t \in l1 : t[1] = "C05" /\ t[2] = "strong:elements-unchanged" /\ t[3] # 2)
  THEN { <<"C05", "strong:no-element-or-block-leaked", IF \E t \in l0 : t[3] = 0 /\ t[1] \in {"C03", "C04"} THEN 0 ELSE 1>> }
  ELSE {}

=============================================================================
