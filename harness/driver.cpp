// driver.cpp -- conformance driver: replays TLC-generated stimuli on the real gch::small_vector
// and records one ndjson trace line per public call (validated afterwards by spec/Trace.tla).
//
// C++11-clean on purpose (C17 replays the same corpus under every -std).  One TU per
// configuration; the configuration is chosen with -DCFG_* macros (see "configuration" below).
// Nothing in here decides a property: it only drives and observes.  All verdicts are TLC's.
//
// usage: driver <stimuli.txt> [start_stim [start_k]]  > trace.ndjson
//   exit 0: all stimuli done;  exit 3: a fatal outcome (terminate / crash / hang) was logged for
//   stimulus S at fault index K and the process ended; the runner restarts at (S, K+1).

#include <cstdio>
#include <cstdlib>
#include <cstring>
#include <csignal>
#include <cstdint>
#include <cstddef>
#include <new>
#include <memory>
#include <iterator>
#include <initializer_list>
#include <type_traits>
#include <stdexcept>
#include <utility>
#include <string>
#include <vector>
#include <limits>
#include <unistd.h>
#include <sys/mman.h>

// ------------------------------------------------------------------ configuration
#ifndef CFG_NA
#define CFG_NA 2
#endif
#ifndef CFG_NB
#define CFG_NB 2
#endif
// element flavour: 0 NT nothrow-move copyable | 1 TM throwing-move copyable | 2 MO move-only nothrow
//                  3 MOT move-only throwing | 4 CO copy-only | 5 TRIV trivially copyable struct | 6 INT
//                  7 MA nothrow move-ASSIGN but throwing move-CTOR | 8 MC throwing move-assign, nothrow move-ctor (copyable)
#ifndef CFG_ELEM
#define CFG_ELEM 0
#endif
#ifndef CFG_ALLOC      // 0 std::allocator, 1 LedgerAlloc, 2 LedgerAlloc handing out fancy pointers (FancyPtr<T>)
#define CFG_ALLOC 1
#endif
#ifndef CFG_POCCA
#define CFG_POCCA 0
#endif
#ifndef CFG_POCMA
#define CFG_POCMA 0
#endif
#ifndef CFG_POCS
#define CFG_POCS 0
#endif
#ifndef CFG_AE
#define CFG_AE 0
#endif
#ifndef CFG_CONSTRUCT  // allocator has construct/destroy members
#define CFG_CONSTRUCT 0
#endif
#ifndef CFG_SIZET      // 8 / 16 / 32 / 64
#define CFG_SIZET 64
#endif
#ifndef CFG_MAXSZ      // 0: natural max_size
#define CFG_MAXSZ 0
#endif
#ifndef CFG_SOCCC      // 1: select_on_container_copy_construction returns a marked allocator (id+50)
#define CFG_SOCCC 0
#endif
#ifndef CFG_VECTOR     // 1: drive std::vector through an adaptor instead (oracle self-test)
#define CFG_VECTOR 0
#endif
#ifndef CFG_NAME
#define CFG_NAME "default"
#endif

#if CFG_VECTOR
#include <vector>
#else
#include <gch/small_vector.hpp>
#endif

// ------------------------------------------------------------------ output
static FILE *g_out;
static char g_hdr[4096];       // JSON prefix of the op being executed (for fatal outcomes)
static volatile int g_in_op;

static void fatal_line (const char *kind)
{
  // Called from terminate / signal handlers: finish the current op line and leave.
  if (g_in_op)
    {
      fputs (g_hdr, g_out);
      fprintf (g_out, "\"out\":\"%s\"}\n", kind);
    }
  else
    fprintf (g_out, "{\"t\":\"fatal\",\"out\":\"%s\"}\n", kind);
  fflush (g_out);
  _exit (3);
}

static void on_terminate () { fatal_line ("terminate"); }
static void on_signal (int sig)
{
  fatal_line (sig == SIGALRM ? "hang" : "crash");
}

// ------------------------------------------------------------------ fault injector + event log
enum FK { FK_NONE = 0, FK_ALLOC = 1, FK_COPY = 2, FK_MOVE = 3, FK_CASSIGN = 4, FK_MASSIGN = 5,
          FK_DEFAULT = 6, FK_VALUE = 7, FK_DEREF = 8, FK_INCR = 9, FK_GEN = 10, FK_SWAP = 11 };

struct InjectedFault { int kind; };

struct Injector
{
  bool armed;
  long count;      // fallible events seen in this op
  long k1, k2;     // throw at the k1-th (and k2-th) fallible event; 0 = never
  int  fk1, fk2;   // kind of the event that threw
  int  fired;
  void reset (long a, long b) { armed = false; count = 0; k1 = a; k2 = b; fk1 = fk2 = 0; fired = 0; }
  void tick (int kind)
  {
    if (! armed) return;
    ++count;
    if (count == k1) { fk1 = kind; ++fired; InjectedFault f = { kind }; throw f; }
    if (count == k2) { fk2 = kind; ++fired; InjectedFault f = { kind }; throw f; }
  }
};
static Injector g_inj;
static long g_cnt_reloc;      // element copy / move constructions (counted even when event logging is off)

// events: [code, r, i, kind, fr, fi]
//  code 1 ctor 2 assign 3 dtor 4 alloc 5 dealloc 6 deref 7 incr 8 gen
//  region r: 1 inline A, 2 inline B, 3 tmp (i = per-op id), 4 ext (i = index), 10+b block b, 0 none
//  kind: 0 default 1 copy 2 move 3 from-value ; +16 when a magic-word check failed (dead object touched)
struct Ev { int code, r, i, kind, fr, fi; };
enum { MAXEV = 600 };
static Ev   g_ev[MAXEV];
static int  g_nev;
static bool g_ev_trunc;
static bool g_logging;   // events are recorded only while an op is executing

static void log_ev (int code, int r, int i, int kind, int fr, int fi)
{
  if (! g_logging) return;
  if (g_nev >= MAXEV) { g_ev_trunc = true; return; }
  Ev e = { code, r, i, kind, fr, fi };
  g_ev[g_nev++] = e;
}

// ------------------------------------------------------------------ address classification
struct Block { char *raw; char *p; size_t n; size_t esz; int aid; bool live; };
enum { MAXBLK = 4096, RZ = 8192 };   // wide red zones: an overflow must hit them, not the heap's own metadata
static Block g_blk[MAXBLK];
static int   g_nblk;            // block ids are 1..g_nblk (index id-1)

struct Range { const char *lo, *hi; size_t esz; int base; };
static Range g_ext[16];
static int   g_next;

static const char *g_objlo[2], *g_objhi[2];   // container object address ranges
static const char *g_inl[2];                  // start of inline storage (0 when N == 0)
static size_t      g_esz;

enum { MAXTMP = 64 };
static const void *g_tmp[MAXTMP];
static int g_ntmp;

static void classify (const void *q, int &r, int &i)
{
  const char *p = static_cast<const char *> (q);
  for (int c = 0; c < 2; ++c)
    if (g_objlo[c] <= p && p < g_objhi[c])
      {
        r = 1 + c;
        if (g_inl[c] == 0 || p < g_inl[c] || (p - g_inl[c]) % static_cast<std::ptrdiff_t> (g_esz) != 0)
          i = -1;
        else
          i = static_cast<int> ((p - g_inl[c]) / static_cast<std::ptrdiff_t> (g_esz));
        return;
      }
  for (int b = g_nblk - 1; b >= 0; --b)
    if (g_blk[b].p <= p && p < g_blk[b].p + g_blk[b].n * g_blk[b].esz + (g_blk[b].n == 0 ? 1 : 0))
      {
        r = 10 + b + 1;
        std::ptrdiff_t off = p - g_blk[b].p;
        i = (off % static_cast<std::ptrdiff_t> (g_esz) == 0) ? static_cast<int> (off / static_cast<std::ptrdiff_t> (g_esz)) : -1;
        return;
      }
  for (int e = 0; e < g_next; ++e)
    if (g_ext[e].lo <= p && p < g_ext[e].hi)
      {
        r = 4;
        i = g_ext[e].base + static_cast<int> ((p - g_ext[e].lo) / static_cast<std::ptrdiff_t> (g_ext[e].esz));
        return;
      }
  r = 3;
  for (int t = 0; t < g_ntmp; ++t)
    if (g_tmp[t] == q) { i = t; return; }
  if (g_ntmp < MAXTMP) { g_tmp[g_ntmp] = q; i = g_ntmp++; }
  else i = MAXTMP;
}

static void ext_register (const void *lo, size_t n, size_t esz, int base)
{
  if (g_next < 16)
    {
      Range rg = { static_cast<const char *> (lo), static_cast<const char *> (lo) + n * esz, esz, base };
      g_ext[g_next++] = rg;
    }
}

static void obj_event (int code, const void *at, int kind, const void *from, bool dead)
{
  if (! g_logging) return;
  int r, i, fr = 0, fi = 0;
  classify (at, r, i);
  if (from) classify (from, fr, fi);
  log_ev (code, r, i, kind + (dead ? 16 : 0), fr, fi);
}

// ------------------------------------------------------------------ block ledger
static bool g_redzone_ok = true;

static char *ledger_allocate (size_t n, size_t esz, int aid)
{
  g_inj.tick (FK_ALLOC);
  if (g_nblk >= MAXBLK) { fprintf (stderr, "driver: block table full\n"); _exit (4); }
  size_t bytes = n * esz;
  char *raw = static_cast<char *> (std::malloc (bytes + 2 * RZ + 64));
  if (! raw) { fprintf (stderr, "driver: malloc failed (%zu)\n", bytes); _exit (4); }
  // keep the payload aligned to 64
  char *p = raw + RZ;
  p += (64 - reinterpret_cast<uintptr_t> (p) % 64) % 64;
  std::memset (p - RZ, 0xCD, RZ);
  std::memset (p, 0xEE, bytes);
  std::memset (p + bytes, 0xCD, RZ);
  Block b = { raw, p, n, esz, aid, true };
  g_blk[g_nblk++] = b;
  log_ev (4, 10 + g_nblk, static_cast<int> (n > 0x3fffffff ? 0x3fffffff : n), aid, 0, 0);
  return p;
}

static bool zone_ok (const char *z)
{
  for (int i = 0; i < RZ; ++i)
    if (static_cast<unsigned char> (z[i]) != 0xCD) return false;
  return true;
}

static void ledger_deallocate (void *q, long n, int aid)
{
  char *p = static_cast<char *> (q);
  int id = 0;
  for (int b = g_nblk - 1; b >= 0; --b)
    if (g_blk[b].p == p) { id = b + 1; break; }
  // [5, region, n, aid, wasLive, 0]; region 0: pointer unknown to the ledger
  int waslive = 0;
  if (id)
    {
      Block &b = g_blk[id - 1];
      waslive = b.live ? 1 : 0;
      if (b.live && ! (zone_ok (b.p - RZ) && zone_ok (b.p + b.n * b.esz))) g_redzone_ok = false;
      b.live = false;         // memory is quarantined until the next reset (no address reuse)
      if (waslive) std::memset (b.p, 0xDD, b.n * b.esz);
    }
  log_ev (5, id ? 10 + id : 0, static_cast<int> (n > 0x3fffffff ? 0x3fffffff : n), aid, waslive, 0);
}

static void ledger_reset ()
{
  for (int b = 0; b < g_nblk; ++b) std::free (g_blk[b].raw);
  g_nblk = 0;
}

static bool all_zones_ok ()
{
  if (! g_redzone_ok) return false;
  for (int b = 0; b < g_nblk; ++b)
    if (g_blk[b].live && ! (zone_ok (g_blk[b].p - RZ) && zone_ok (g_blk[b].p + g_blk[b].n * g_blk[b].esz)))
      return false;
  return true;
}

// ------------------------------------------------------------------ element types
enum { MAGIC_ALIVE = 0x5A11FE01, MAGIC_DEAD = 0x0DEAD0DE };

#define ELEM_NOTHROW_MOVE_CTOR   (CFG_ELEM == 0 || CFG_ELEM == 2 || CFG_ELEM == 5 || CFG_ELEM == 6 || CFG_ELEM == 8 || CFG_ELEM >= 9)
#define ELEM_NOTHROW_MOVE_ASSIGN (CFG_ELEM == 0 || CFG_ELEM == 2 || CFG_ELEM == 5 || CFG_ELEM == 6 || CFG_ELEM == 7 || CFG_ELEM >= 9)
#define ELEM_NOTHROW_MOVE (ELEM_NOTHROW_MOVE_CTOR && ELEM_NOTHROW_MOVE_ASSIGN)
#define ELEM_COPYABLE     (CFG_ELEM != 2 && CFG_ELEM != 3)
#define ELEM_HAS_MOVE     (CFG_ELEM != 4)
#define ELEM_TRACKED      (CFG_ELEM <= 4 || CFG_ELEM == 7 || CFG_ELEM == 8 || CFG_ELEM == 10 || CFG_ELEM == 12)
// flavour NC (12): like NT, and copying cannot throw either (a reference-counted handle): whatever the library guards with
// is_nothrow_copy_constructible / is_nothrow_constructible<T, const T&> is live only here
#define ELEM_NOTHROW_COPY (CFG_ELEM == 12)
#define ELEM_ADL_SWAP     (CFG_ELEM == 10)

// A source value that elements can be CONSTRUCTED from (explicitly) but not ASSIGNED from: ranges of these take the
// library's "not assignable from *first" routes (assign = erase everything, then append).
struct Src
{
  int v;
#if CFG_ELEM == 6
  explicit operator int () const { return v; }
#elif CFG_ELEM == 9
  explicit operator double () const { return static_cast<double> (v); }
#endif
};

struct Tracked
{
  int v;
  int mf;          // moved-from flag
  int magic;

  Tracked () : v (0), mf (0), magic (0)
  {
    g_inj.tick (FK_DEFAULT);
    magic = MAGIC_ALIVE;
    obj_event (1, this, 0, 0, false);
  }

  /* implicit */ Tracked (int x) : v (x), mf (0), magic (0)
  {
    g_inj.tick (FK_VALUE);
    magic = MAGIC_ALIVE;
    obj_event (1, this, 3, 0, false);
  }

  explicit Tracked (const Src &x) : v (x.v), mf (0), magic (0)
  {
    g_inj.tick (FK_VALUE);
    magic = MAGIC_ALIVE;
    obj_event (1, this, 3, 0, false);
  }

#if ELEM_COPYABLE
  Tracked (const Tracked &o) noexcept (ELEM_NOTHROW_COPY) : v (o.v), mf (o.mf), magic (0)
  {
#if ! ELEM_NOTHROW_COPY
    g_inj.tick (FK_COPY);
#endif
    magic = MAGIC_ALIVE;
    ++g_cnt_reloc;
    obj_event (1, this, 1, &o, o.magic != MAGIC_ALIVE);
  }

  Tracked &operator= (const Tracked &o) noexcept (ELEM_NOTHROW_COPY)
  {
#if ! ELEM_NOTHROW_COPY
    g_inj.tick (FK_CASSIGN);
#endif
    obj_event (2, this, 1, &o, o.magic != MAGIC_ALIVE || magic != MAGIC_ALIVE);
    v = o.v; mf = o.mf;
    return *this;
  }
#else
  Tracked (const Tracked &) = delete;
  Tracked &operator= (const Tracked &) = delete;
#endif

#if ELEM_HAS_MOVE
  Tracked (Tracked &&o) noexcept (ELEM_NOTHROW_MOVE_CTOR) : v (o.v), mf (o.mf), magic (0)
  {
#if ! ELEM_NOTHROW_MOVE_CTOR
    g_inj.tick (FK_MOVE);
#endif
    magic = MAGIC_ALIVE;
    ++g_cnt_reloc;
    obj_event (1, this, 2, &o, o.magic != MAGIC_ALIVE);
    o.mf = 1;
  }

  Tracked &operator= (Tracked &&o) noexcept (ELEM_NOTHROW_MOVE_ASSIGN)
  {
#if ! ELEM_NOTHROW_MOVE_ASSIGN
    g_inj.tick (FK_MASSIGN);
#endif
    obj_event (2, this, 2, &o, o.magic != MAGIC_ALIVE || magic != MAGIC_ALIVE);
    if (this != &o) { v = o.v; mf = o.mf; o.mf = 1; }
    return *this;
  }
#endif

  ~Tracked ()
  {
    obj_event (3, this, 0, 0, magic != MAGIC_ALIVE);
    magic = MAGIC_DEAD;
  }

#if ELEM_ADL_SWAP
  // flavour SW: nothrow moves, but a user swap found by ADL that may throw (before it has any effect) and that creates
  // no temporary -- the container's swap is then potentially throwing although every move is noexcept
  friend void swap (Tracked &a, Tracked &b) noexcept (false)
  {
    g_inj.tick (FK_SWAP);
    if (a.magic != MAGIC_ALIVE || b.magic != MAGIC_ALIVE) obj_event (2, &a, 2, &b, true);     // swapping dead storage
    int t = a.v; a.v = b.v; b.v = t;
    t = a.mf; a.mf = b.mf; b.mf = t;
  }
#endif
};

inline bool operator== (const Tracked &a, const Tracked &b) { return a.v == b.v; }
inline bool operator!= (const Tracked &a, const Tracked &b) { return a.v != b.v; }
inline bool operator<  (const Tracked &a, const Tracked &b) { return a.v <  b.v; }
inline bool operator<= (const Tracked &a, const Tracked &b) { return a.v <= b.v; }
inline bool operator>  (const Tracked &a, const Tracked &b) { return a.v >  b.v; }
inline bool operator>= (const Tracked &a, const Tracked &b) { return a.v >= b.v; }

#ifndef CFG_SPACESHIP
#define CFG_SPACESHIP 0
#endif
#if CFG_SPACESHIP && defined (__cpp_impl_three_way_comparison)
#include <compare>
#endif
struct Triv
{
  int v;
  Triv () = default;
  /* implicit */ Triv (int x) : v (x) { }
  explicit Triv (const Src &x) : v (x.v) { }
#if CFG_SPACESHIP && defined (__cpp_impl_three_way_comparison)
  friend auto operator<=> (const Triv &a, const Triv &b) { return a.v <=> b.v; }
#endif
};
inline bool operator== (const Triv &a, const Triv &b) { return a.v == b.v; }
inline bool operator!= (const Triv &a, const Triv &b) { return a.v != b.v; }
inline bool operator<  (const Triv &a, const Triv &b) { return a.v <  b.v; }
inline bool operator<= (const Triv &a, const Triv &b) { return a.v <= b.v; }
inline bool operator>  (const Triv &a, const Triv &b) { return a.v >  b.v; }
inline bool operator>= (const Triv &a, const Triv &b) { return a.v >= b.v; }

#if ELEM_TRACKED
typedef Tracked Elem;
static inline int  val_of (const Elem &e) { return e.v; }
static inline int  mf_of (const Elem &e) { return e.mf; }
static inline Elem make_elem (int v) { bool l = g_logging; g_logging = false; bool a = g_inj.armed; g_inj.armed = false; Elem e (v); g_logging = l; g_inj.armed = a; return e; }
#elif CFG_ELEM == 5
typedef Triv Elem;
static inline int  val_of (const Elem &e) { return e.v; }
static inline int  mf_of (const Elem &) { return 0; }
static inline Elem make_elem (int v) { Elem e (v); return e; }
#elif CFG_ELEM == 11
// trivially copyable, trivially default constructible, but all-zero bytes are NOT its value-initialised state: a null
// pointer to data member is -1 in the Itanium ABI, zero bytes are &PmHost::pad.  A "zero the storage" shortcut shows as -997.
struct PmHost { int pad; int a; };
struct PmElem
{
  int PmHost::*p;
  int v;
  PmElem () = default;
  /* implicit */ PmElem (int x) : p (&PmHost::a), v (x) { }
  explicit PmElem (const Src &x) : p (&PmHost::a), v (x.v) { }
};
inline bool operator== (const PmElem &a, const PmElem &b) { return a.v == b.v; }
inline bool operator!= (const PmElem &a, const PmElem &b) { return a.v != b.v; }
inline bool operator<  (const PmElem &a, const PmElem &b) { return a.v <  b.v; }
inline bool operator<= (const PmElem &a, const PmElem &b) { return a.v <= b.v; }
inline bool operator>  (const PmElem &a, const PmElem &b) { return a.v >  b.v; }
inline bool operator>= (const PmElem &a, const PmElem &b) { return a.v >= b.v; }
typedef PmElem Elem;
static inline int  val_of (const Elem &e) { return (e.p == nullptr || e.p == &PmHost::a) ? e.v : -997; }
static inline int  mf_of (const Elem &) { return 0; }
static inline Elem make_elem (int v) { Elem e (v); return e; }
#elif CFG_ELEM == 9
// floating point: value code 2 is -0.0 (equal to code 0 = +0.0, different bytes), code 3 is a NaN (unequal to itself,
// unordered with everything); every other code is the number itself
#include <cmath>
typedef double Elem;
static inline int  val_of (const Elem &e) { return std::isnan (e) ? 3 : (e == 0.0 && std::signbit (e)) ? 2 : static_cast<int> (e); }
static inline int  mf_of (const Elem &) { return 0; }
static inline Elem make_elem (int v) { return v == 2 ? -0.0 : v == 3 ? std::nan ("") : static_cast<double> (v); }
#else
typedef int Elem;
static inline int  val_of (const Elem &e) { return e; }
static inline int  mf_of (const Elem &) { return 0; }
static inline Elem make_elem (int v) { return v; }
#endif

// A value of another type for the non-member erase (v, value): converts implicitly to an element (losing `inexact`), and
// compares with elements exactly -- `element == needle` is the comparison std::erase / std::remove are specified with.
struct Needle
{
  int  v;
  bool inexact;
#if ELEM_TRACKED
  operator Elem () const { return Elem (v); }
#else
  operator Elem () const { return make_elem (v); }
#endif
};
#if CFG_ELEM == 9
inline bool operator== (const Elem &e, const Needle &n) { return ! n.inexact && e == make_elem (n.v); }
#else
inline bool operator== (const Elem &e, const Needle &n) { return ! n.inexact && val_of (e) == n.v; }
#endif
inline bool operator== (const Needle &n, const Elem &e) { return e == n; }
inline bool operator!= (const Elem &e, const Needle &n) { return ! (e == n); }
inline bool operator!= (const Needle &n, const Elem &e) { return ! (e == n); }

static const char *elem_name ()
{
  static const char *n[] = { "NT", "TM", "MO", "MOT", "CO", "TRIV", "INT", "MA", "MC", "FLT", "SW", "PM", "NC" };
  return n[CFG_ELEM];
}

// ------------------------------------------------------------------ allocators
#ifndef CFG_CONSTRUCT
#define CFG_CONSTRUCT 0
#endif
#define DEFVAL (CFG_CONSTRUCT == 2 ? 42 : 0)
#if CFG_ELEM <= 5 || CFG_ELEM == 7 || CFG_ELEM == 8 || CFG_ELEM >= 10
static inline void mark_value_constructed (Elem &e) { e.v = 42; }
#else
static inline void mark_value_constructed (Elem &e) { e = 42; }
#endif
template <typename U> static inline void mark_value_constructed (U &) { }
template <int Bits> struct SizeT;
template <> struct SizeT<8>  { typedef std::uint8_t  size_type; typedef std::int8_t  difference_type; };
template <> struct SizeT<16> { typedef std::uint16_t size_type; typedef std::int16_t difference_type; };
template <> struct SizeT<32> { typedef std::uint32_t size_type; typedef std::int32_t difference_type; };
template <> struct SizeT<64> { typedef std::size_t   size_type; typedef std::ptrdiff_t difference_type; };


#if CFG_ALLOC == 2
// A fancy pointer that is not a disguised raw pointer: the stored bits are the address XOR a key, there is no
// implicit conversion TO T* (only from it), and a value-initialised FancyPtr is null.  Code that reinterprets the
// representation, or that needs a raw pointer where the allocator's pointer type is required, does not work with it.
static const std::uintptr_t FP_KEY = static_cast<std::uintptr_t> (0x5a5a0000a5a5ull);
template <typename T> struct fp_ref                { typedef T &type; };
template <>           struct fp_ref<void>          { typedef void type; };
template <>           struct fp_ref<const void>    { typedef void type; };
struct fp_nat { };

template <typename T>
struct FancyPtr
{
  typedef T                                  element_type;
  typedef std::ptrdiff_t                     difference_type;
  typedef typename std::remove_cv<T>::type   value_type;
  typedef T *                                pointer;
  typedef typename fp_ref<T>::type           reference;
  typedef std::random_access_iterator_tag    iterator_category;
#if defined (__cpp_lib_concepts)
  typedef std::contiguous_iterator_tag       iterator_concept;
#endif
  template <typename U> using rebind = FancyPtr<U>;

  std::uintptr_t bits;

  FancyPtr () noexcept : bits (FP_KEY) { }
  FancyPtr (std::nullptr_t) noexcept : bits (FP_KEY) { }
  // like boost::interprocess::offset_ptr (and as the library requires): implicitly constructible from a raw pointer ...
  FancyPtr (T *p) noexcept : bits (reinterpret_cast<std::uintptr_t> (p) ^ FP_KEY) { }
  // ... and from the matching void pointer (the library static_casts `void *` to its pointer type)
  template <typename V, typename std::enable_if<std::is_void<V>::value && ! std::is_void<T>::value
                                                && (std::is_const<T>::value || ! std::is_const<V>::value), int>::type = 0>
  explicit FancyPtr (V *p) noexcept : bits (reinterpret_cast<std::uintptr_t> (p) ^ FP_KEY) { }
  // T* -> const T*, T* -> void* style conversions are implicit ...
  template <typename U, typename std::enable_if<std::is_convertible<U *, T *>::value && ! std::is_same<U, T>::value, int>::type = 0>
  FancyPtr (const FancyPtr<U> &o) noexcept : bits (o.bits) { }
  // ... void* -> T* needs a static_cast
  template <typename U, typename std::enable_if<std::is_void<U>::value && ! std::is_void<T>::value
                                                && (std::is_const<T>::value || ! std::is_const<U>::value), int>::type = 0>
  explicit FancyPtr (const FancyPtr<U> &o) noexcept : bits (o.bits) { }

  static FancyPtr from_raw (T *p) noexcept { FancyPtr r; r.bits = reinterpret_cast<std::uintptr_t> (p) ^ FP_KEY; return r; }
  T *get () const noexcept { return reinterpret_cast<T *> (bits ^ FP_KEY); }
  static FancyPtr pointer_to (typename std::conditional<std::is_void<T>::value, fp_nat, T>::type &r) noexcept
  { return from_raw (reinterpret_cast<T *> (const_cast<char *> (&reinterpret_cast<const volatile char &> (r)))); }

  explicit operator bool () const noexcept { return get () != 0; }
  reference operator* () const noexcept { return *get (); }
  T *operator-> () const noexcept { return get (); }
  reference operator[] (difference_type n) const noexcept { return get ()[n]; }
  FancyPtr &operator++ () noexcept { *this = from_raw (get () + 1); return *this; }
  FancyPtr &operator-- () noexcept { *this = from_raw (get () - 1); return *this; }
  FancyPtr operator++ (int) noexcept { FancyPtr t = *this; ++*this; return t; }
  FancyPtr operator-- (int) noexcept { FancyPtr t = *this; --*this; return t; }
  FancyPtr &operator+= (difference_type n) noexcept { *this = from_raw (get () + n); return *this; }
  FancyPtr &operator-= (difference_type n) noexcept { *this = from_raw (get () - n); return *this; }
  friend FancyPtr operator+ (FancyPtr a, difference_type n) noexcept { a += n; return a; }
  friend FancyPtr operator+ (difference_type n, FancyPtr a) noexcept { a += n; return a; }
  friend FancyPtr operator- (FancyPtr a, difference_type n) noexcept { a -= n; return a; }
};
template <typename T, typename U>
inline auto operator- (const FancyPtr<T> &a, const FancyPtr<U> &b) noexcept -> decltype (a.get () - b.get ()) { return a.get () - b.get (); }
#define FP_CMP(OP)                                                                                                       \
  template <typename T, typename U> inline bool operator OP (const FancyPtr<T> &a, const FancyPtr<U> &b) noexcept       \
  { return static_cast<const volatile void *> (a.get ()) OP static_cast<const volatile void *> (b.get ()); }              \
  template <typename T> inline bool operator OP (const FancyPtr<T> &a, std::nullptr_t) noexcept                         \
  { return static_cast<const volatile void *> (a.get ()) OP static_cast<const volatile void *> (0); }                     \
  template <typename T> inline bool operator OP (std::nullptr_t, const FancyPtr<T> &b) noexcept                         \
  { return static_cast<const volatile void *> (0) OP static_cast<const volatile void *> (b.get ()); }
FP_CMP (==) FP_CMP (!=) FP_CMP (<) FP_CMP (<=) FP_CMP (>) FP_CMP (>=)
#undef FP_CMP
template <typename T> static inline T *raw (const FancyPtr<T> &p) { return p.get (); }
#endif
template <typename T> static inline T *raw (T *p) { return p; }

static int g_default_aid = 1;

template <typename T>
struct LedgerAlloc
{
  typedef T value_type;
  typedef typename SizeT<CFG_SIZET>::size_type size_type;
  typedef typename SizeT<CFG_SIZET>::difference_type difference_type;
  typedef std::integral_constant<bool, CFG_POCCA != 0> propagate_on_container_copy_assignment;
  typedef std::integral_constant<bool, CFG_POCMA != 0> propagate_on_container_move_assignment;
  typedef std::integral_constant<bool, CFG_POCS  != 0> propagate_on_container_swap;
  typedef std::integral_constant<bool, CFG_AE    != 0> is_always_equal;
  template <typename U> struct rebind { typedef LedgerAlloc<U> other; };

#if CFG_ALLOC == 2
  typedef FancyPtr<T>          pointer;
  typedef FancyPtr<const T>    const_pointer;
  typedef FancyPtr<void>       void_pointer;
  typedef FancyPtr<const void> const_void_pointer;
#else
  typedef T *pointer;
#endif

  int id;

  LedgerAlloc () noexcept : id (g_default_aid) { }
  explicit LedgerAlloc (int i) noexcept : id (i) { }
  template <typename U> LedgerAlloc (const LedgerAlloc<U> &o) noexcept : id (o.id) { }

#if CFG_ALLOC == 2
  pointer allocate (size_type n)
  {
    return pointer::from_raw (reinterpret_cast<T *> (ledger_allocate (static_cast<size_t> (n), sizeof (T), id)));
  }

  void deallocate (pointer p, size_type n) noexcept
  {
    ledger_deallocate (p.get (), static_cast<long> (n), id);
  }
#else
  T *allocate (size_type n)
  {
    return reinterpret_cast<T *> (ledger_allocate (static_cast<size_t> (n), sizeof (T), id));
  }

  void deallocate (T *p, size_type n) noexcept
  {
    ledger_deallocate (p, static_cast<long> (n), id);
  }
#endif

  size_type max_size () const noexcept
  {
#if CFG_MAXSZ
    return static_cast<size_type> (CFG_MAXSZ);
#else
    return static_cast<size_type> ((std::numeric_limits<size_type>::max) () / sizeof (T));
#endif
  }

  LedgerAlloc select_on_container_copy_construction () const
  {
    return LedgerAlloc (CFG_SOCCC ? id + 50 : id);
  }

#if CFG_CONSTRUCT == 1
  // construct/destroy members: the container must route every element construction and
  // destruction through them (they behave like the defaults, so the event stream is identical).
  template <typename U, typename... Args>
  void construct (U *p, Args &&... args) { ::new (static_cast<void *> (p)) U (std::forward<Args> (args)...); }
  template <typename U>
  void destroy (U *p) { p->~U (); }
#elif CFG_CONSTRUCT == 2
  // construct only, and its value-construction form leaves a mark (the "default-init allocator" pattern): every
  // value-constructed element must come out as DEFVAL, for trivially constructible element types too
  template <typename U, typename A0, typename... Args>
  void construct (U *p, A0 &&a0, Args &&... args) { ::new (static_cast<void *> (p)) U (std::forward<A0> (a0), std::forward<Args> (args)...); }
  template <typename U>
  void construct (U *p) { ::new (static_cast<void *> (p)) U (); mark_value_constructed (*p); }
#elif CFG_CONSTRUCT == 3
  // destroy only
  template <typename U>
  void destroy (U *p) { p->~U (); }
#endif
};

template <typename T, typename U>
inline bool operator== (const LedgerAlloc<T> &a, const LedgerAlloc<U> &b) noexcept
{ return CFG_AE ? true : a.id == b.id; }
template <typename T, typename U>
inline bool operator!= (const LedgerAlloc<T> &a, const LedgerAlloc<U> &b) noexcept
{ return ! (a == b); }

#if CFG_ALLOC == 0
// std::allocator: observe its traffic through the global allocation functions.
static bool g_track_new;
static bool g_track_quiet;    // long runs: events are not logged, but the container's blocks are still entered in the ledger
extern "C" char __executable_start;
extern "C" char etext;
// Only allocations requested from code of this translation unit (std::allocator<Elem>::allocate is
// instantiated here) are the container's; the standard library's own allocations (e.g. the message
// of a std::length_error / std::out_of_range, made inside libstdc++.so) are not.
static __attribute__ ((noinline)) void *tracked_new (std::size_t sz, void *ra)
{
  bool ours = static_cast<char *> (ra) >= &__executable_start && static_cast<char *> (ra) < &etext;
  if (g_track_new && (g_logging || g_track_quiet) && ours)
    return ledger_allocate (sz / sizeof (Elem), sizeof (Elem), 0);
  void *p = std::malloc (sz ? sz : 1);
  if (! p) throw std::bad_alloc ();
  return p;
}
static void tracked_delete (void *p, long n)
{
  if (! p) return;
  for (int b = g_nblk - 1; b >= 0; --b)
    if (g_blk[b].p == static_cast<char *> (p))
      {
        ledger_deallocate (p, n, 0);
        return;
      }
  std::free (p);
}
__attribute__ ((noinline)) void *operator new (std::size_t sz) { return tracked_new (sz, __builtin_return_address (0)); }
__attribute__ ((noinline)) void *operator new[] (std::size_t sz) { return tracked_new (sz, __builtin_return_address (0)); }
void operator delete (void *p) noexcept { tracked_delete (p, -1); }
void operator delete[] (void *p) noexcept { tracked_delete (p, -1); }
void operator delete (void *p, std::size_t sz) noexcept { tracked_delete (p, static_cast<long> (sz / sizeof (Elem))); }
void operator delete[] (void *p, std::size_t sz) noexcept { tracked_delete (p, static_cast<long> (sz / sizeof (Elem))); }
typedef std::allocator<Elem> Alloc;
static inline Alloc make_alloc (int) { return Alloc (); }
static inline int   alloc_id (const Alloc &) { return 0; }
#else
typedef LedgerAlloc<Elem> Alloc;
static inline Alloc make_alloc (int id) { return Alloc (id); }
static inline int   alloc_id (const Alloc &a) { return a.id; }
#endif

// ------------------------------------------------------------------ container types
#if CFG_VECTOR
// Thin adaptor: std::vector with the (std-compatible subset of the) small_vector interface.
template <typename T, unsigned N, typename A>
struct vec_adaptor : std::vector<T, A>
{
  typedef std::vector<T, A> base;
  using base::base;
  vec_adaptor () : base () { }
  explicit vec_adaptor (const A &a) : base (a) { }
  vec_adaptor (const vec_adaptor &o) : base (o) { }
  vec_adaptor (vec_adaptor &&o) : base (std::move (o)) { }
  vec_adaptor &operator= (const vec_adaptor &o) { base::operator= (o); return *this; }
  vec_adaptor &operator= (vec_adaptor &&o) { base::operator= (std::move (o)); return *this; }
  static unsigned inline_capacity () { return 0; }
  bool inlined () const { return this->capacity () == 0; }
  bool inlinable () const { return this->size () == 0; }
};
template <unsigned N> struct SVof { typedef vec_adaptor<Elem, N, Alloc> type; };
#else
template <unsigned N> struct SVof { typedef gch::small_vector<Elem, N, Alloc> type; };
#endif
typedef SVof<CFG_NA>::type VA;
typedef SVof<CFG_NB>::type VB;

// Each slot lives in its own mapping:  [guard page][PRE bytes 0xCD][object][POST bytes 0xCD][guard page].
// A write outside the object lands in a red zone (reported through "can") or on a guard page (reported as a
// crash of that call) -- never in the driver's own state.
enum { SLOT_PRE = 4096, SLOT_POST = 65536 };
struct SlotMem { unsigned char *map; unsigned char *pre; unsigned char *obj; unsigned char *post; size_t objsz; };
static SlotMem g_mem[2];
static bool    g_present[2];
static size_t  g_objsz[2] = { sizeof (VA), sizeof (VB) };

static void slots_map ()
{
  for (int c = 0; c < 2; ++c)
    {
      size_t osz = (g_objsz[c] + 63) / 64 * 64;
      size_t body = SLOT_PRE + osz + SLOT_POST;
      body = (body + 4095) / 4096 * 4096;
      unsigned char *m = static_cast<unsigned char *> (mmap (0, body + 2 * 4096, PROT_READ | PROT_WRITE, MAP_PRIVATE | MAP_ANONYMOUS, -1, 0));
      if (m == MAP_FAILED) { perror ("mmap"); _exit (4); }
      mprotect (m, 4096, PROT_NONE);
      mprotect (m + 4096 + body, 4096, PROT_NONE);
      g_mem[c].map = m;
      // the object ends exactly SLOT_POST bytes before the trailing guard page
      g_mem[c].post = m + 4096 + body - SLOT_POST;
      g_mem[c].obj = g_mem[c].post - osz;
      g_mem[c].pre = g_mem[c].obj - SLOT_PRE;
      g_mem[c].objsz = osz;
    }
}

static VA *slotA () { return reinterpret_cast<VA *> (g_mem[0].obj); }
static VB *slotB () { return reinterpret_cast<VB *> (g_mem[1].obj); }

static void slots_poison ()
{
  for (int c = 0; c < 2; ++c)
    {
      std::memset (g_mem[c].pre, 0xCD, SLOT_PRE);
      std::memset (g_mem[c].obj, 0xEE, g_objsz[c]);
      std::memset (g_mem[c].obj + g_objsz[c], 0xCD, g_mem[c].objsz - g_objsz[c]);
      std::memset (g_mem[c].post, 0xCD, SLOT_POST);
    }
}

static bool all_cd (const unsigned char *p, size_t n)
{
  for (size_t i = 0; i < n; ++i) if (p[i] != 0xCD) return false;
  return true;
}

static bool slot_zones_ok ()
{
  for (int c = 0; c < 2; ++c)
    if (! all_cd (g_mem[c].pre, SLOT_PRE) || ! all_cd (g_mem[c].obj + g_objsz[c], g_mem[c].objsz - g_objsz[c])
        || ! all_cd (g_mem[c].post, SLOT_POST))
      return false;
  return true;
}

// ------------------------------------------------------------------ iterators over a source array
template <typename T> struct StreamStateT { const T *data; int len; int cur; bool derefd; };
typedef StreamStateT<Elem> StreamState;

// Input iterator: all copies share one cursor (like istream_iterator).  Every copy remembers the
// position it believes it is at; events carry both so the spec can spot stale copies.
template <typename T>
struct StreamItT
{
  typedef std::input_iterator_tag iterator_category;
  typedef T value_type;
  typedef std::ptrdiff_t difference_type;
  typedef const T *pointer;
  typedef const T &reference;
  typedef StreamItT StreamIt;

  StreamStateT<T> *st;
  int pos;      // -1: end sentinel

  StreamItT () : st (0), pos (-1) { }
  StreamItT (StreamStateT<T> *s, int p) : st (s), pos (p) { }

  reference operator* () const
  {
    g_inj.tick (FK_DEREF);
    log_ev (6, 0, pos, st ? st->cur : -1, st ? st->len : -1, 0);
    int at = (st && st->cur < st->len) ? st->cur : 0;
    return st->data[at];
  }
  pointer operator-> () const { return &**this; }

  StreamIt &operator++ ()
  {
    g_inj.tick (FK_INCR);
    log_ev (7, 0, pos, st ? st->cur : -1, st ? st->len : -1, 0);
    if (st && st->cur < st->len) ++st->cur;
    pos = st ? st->cur : -1;
    return *this;
  }

  struct Proxy { T const *p; const T &operator* () const { return *p; } };
  Proxy operator++ (int)
  {
    Proxy pr = { &**this };
    ++*this;
    return pr;
  }

  bool at_end () const { return pos == -1 || st == 0 || st->cur >= st->len; }
  friend bool operator== (const StreamIt &a, const StreamIt &b)
  {
    if (a.pos == -1 || b.pos == -1) return a.at_end () && b.at_end ();
    return a.pos == b.pos;
  }
  friend bool operator!= (const StreamIt &a, const StreamIt &b) { return ! (a == b); }
};
typedef StreamItT<Elem> StreamIt;

// Multi-pass iterators of a chosen category over the same array.  They only report walking or
// reading at/after the end (events 6/7 with region 9), and are fault points.
template <typename Cat, typename T = Elem>
struct WalkIt
{
  typedef Cat iterator_category;
  typedef T value_type;
  typedef std::ptrdiff_t difference_type;
  typedef const T *pointer;
  typedef const T &reference;

  const T *base;
  int len;
  int pos;

  WalkIt () : base (0), len (0), pos (0) { }
  WalkIt (const T *b, int l, int p) : base (b), len (l), pos (p) { }

  reference operator* () const
  {
    g_inj.tick (FK_DEREF);
    if (pos >= len || pos < 0) log_ev (6, 9, pos, pos, len, 0);
    return base[(pos >= 0 && pos < len) ? pos : 0];
  }
  pointer operator-> () const { return &**this; }
  WalkIt &operator++ ()
  {
    g_inj.tick (FK_INCR);
    if (pos >= len) log_ev (7, 9, pos, pos, len, 0);
    ++pos;
    return *this;
  }
  WalkIt operator++ (int) { WalkIt t = *this; ++*this; return t; }
  WalkIt &operator-- () { --pos; return *this; }
  WalkIt operator-- (int) { WalkIt t = *this; --pos; return t; }
  WalkIt &operator+= (difference_type n) { pos += static_cast<int> (n); return *this; }
  WalkIt &operator-= (difference_type n) { pos -= static_cast<int> (n); return *this; }
  friend WalkIt operator+ (WalkIt a, difference_type n) { a += n; return a; }
  friend WalkIt operator+ (difference_type n, WalkIt a) { a += n; return a; }
  friend WalkIt operator- (WalkIt a, difference_type n) { a -= n; return a; }
  friend difference_type operator- (const WalkIt &a, const WalkIt &b) { return a.pos - b.pos; }
  reference operator[] (difference_type n) const { return *(*this + n); }
  friend bool operator== (const WalkIt &a, const WalkIt &b) { return a.pos == b.pos; }
  friend bool operator!= (const WalkIt &a, const WalkIt &b) { return a.pos != b.pos; }
  friend bool operator<  (const WalkIt &a, const WalkIt &b) { return a.pos <  b.pos; }
  friend bool operator>  (const WalkIt &a, const WalkIt &b) { return a.pos >  b.pos; }
  friend bool operator<= (const WalkIt &a, const WalkIt &b) { return a.pos <= b.pos; }
  friend bool operator>= (const WalkIt &a, const WalkIt &b) { return a.pos >= b.pos; }
};

struct Gen
{
  int *calls;
  int base;
  Elem operator() ()
  {
    g_inj.tick (FK_GEN);
    log_ev (8, 0, *calls, 0, 0, 0);
    int j = (*calls)++;
    return Elem (base + j);     // constructed (and logged, when tracked) in the caller's temporary
  }
};

// The same generator as an EMPTY class (a captureless lambda, a functor without members): its state lives outside the object.
// The contract is the same -- one call per element, in order; anything the library derives from std::is_empty<Generator> shows.
static int *g_gen_calls = 0;
static int  g_gen_base = 0;
struct EmptyGen
{
  Elem operator() ()
  {
    g_inj.tick (FK_GEN);
    log_ev (8, 0, *g_gen_calls, 0, 0, 0);
    int j = (*g_gen_calls)++;
    return Elem (g_gen_base + j);
  }
};

// ------------------------------------------------------------------ stimulus representation
struct Op
{
  char name[24];
  int  d;        // destination / only slot (0 = A, 1 = B)
  int  s;        // source slot for binary ops (-1 otherwise)
  long a[12];    // integer arguments
  int  na;
};

struct Stim
{
  char id[32];
  int  fmode;    // 0: no faults; 1: every single fault point of the last op; 2: + pairs
  std::vector<Op> ops;
};

// ------------------------------------------------------------------ probe
static int g_next_val;     // fresh element values
static int g_probe_bad;    // set when the probe could not classify something (internal error)

template <typename V>
static int store_of (const V &v)
{
  const char *p = reinterpret_cast<const char *> (raw (v.data ()));
  if (p == 0) return -2;
  const char *o = reinterpret_cast<const char *> (&v);
  if (o <= p && p < o + sizeof (V)) return 0;
  for (int b = g_nblk - 1; b >= 0; --b)
    if (g_blk[b].live && g_blk[b].p == p) return b + 1;
  return -1;
}

template <typename V>
static int views_agree (V &v)     // bit 0: member views contiguous / consistent; bit 1: non-member twins agree
{
  // contiguity, iterator flavours, non-member twins
  const V &cv = v;
  typedef typename V::size_type sz_t;
  sz_t n = v.size ();
  bool ok = true;
  ok = ok && static_cast<sz_t> (v.end () - v.begin ()) == n;
  ok = ok && static_cast<sz_t> (cv.end () - cv.begin ()) == n;
  ok = ok && static_cast<sz_t> (v.cend () - v.cbegin ()) == n;
  ok = ok && static_cast<sz_t> (v.rend () - v.rbegin ()) == n;
  ok = ok && static_cast<sz_t> (cv.rend () - cv.rbegin ()) == n;
  ok = ok && static_cast<sz_t> (v.crend () - v.crbegin ()) == n;
  ok = ok && (v.empty () == (n == 0));
  ok = ok && (raw (cv.data ()) == raw (v.data ()));
  for (sz_t i = 0; i < n && ok; ++i)
    {
      ok = ok && (&v[i] == raw (v.data ()) + i) && (&cv[i] == raw (cv.data ()) + i);
      ok = ok && (&*(v.begin () + static_cast<std::ptrdiff_t> (i)) == raw (v.data ()) + i);
      ok = ok && (&*(cv.begin () + static_cast<std::ptrdiff_t> (i)) == raw (v.data ()) + i);
      ok = ok && (&*(v.rbegin () + static_cast<std::ptrdiff_t> (n - 1 - i)) == raw (v.data ()) + i);
      ok = ok && (&v.at (i) == raw (v.data ()) + i);
    }
  if (n > 0)
    ok = ok && (&v.front () == raw (v.data ())) && (&v.back () == raw (v.data ()) + (n - 1))
            && (&cv.front () == raw (v.data ())) && (&cv.back () == raw (v.data ()) + (n - 1));
  // iterator algebra (random access requirements) on iterator and const_iterator
  {
    typedef typename V::iterator it_t;
    typedef typename V::const_iterator cit_t;
    typedef typename V::difference_type d_t;
    it_t b = v.begin (), e = v.end ();
    cit_t cb = b;                      // iterator -> const_iterator
    ok = ok && (cb == v.cbegin ()) && (b == cb) && ! (b != cb) && (e - b == static_cast<d_t> (n)) && (cv.end () - cb == static_cast<d_t> (n));
    ok = ok && (b <= e) && (e >= b) && ! (e < b) && ! (b > e) && ((b < e) == (n > 0)) && ((cb < cv.end ()) == (n > 0));
    for (sz_t i = 0; i < n && ok; ++i)
      {
        d_t k = static_cast<d_t> (i);
        it_t p = b; p += k;
        it_t q = e; q -= static_cast<d_t> (n - i);
        it_t r = b; for (sz_t j = 0; j < i; ++j) { if (j & 1) ++r; else r++; }
        it_t s = e; for (sz_t j = i; j < n; ++j) { if (j & 1) --s; else s--; }
        ok = ok && (&*p == raw (v.data ()) + i) && (p == q) && (r == p) && (s == p) && (k + b == p) && (e - static_cast<d_t> (n - i) == p)
                && (&b[k] == raw (v.data ()) + i) && (&cb[k] == raw (v.data ()) + i) && (p - b == k) && (raw (p.operator-> ()) == raw (v.data ()) + i)
                && ((p < e)) && (b <= p) && (p >= b) && ((p > b) == (i > 0));
        cit_t cp = cb + k;
        ok = ok && (cp == p) && (p == cp) && (cp - cb == k) && (cp - b == k) && (p - cb == k) && ((cp < e) && (b <= cp));
      }
  }
  bool nm = true;
#if ! CFG_VECTOR
  bool mem_ok = ok;
  ok = true;
  using gch::begin; using gch::end; using gch::cbegin; using gch::cend;
  using gch::rbegin; using gch::rend; using gch::crbegin; using gch::crend;
  using gch::size; using gch::empty; using gch::data;
  ok = ok && begin (v) == v.begin () && end (v) == v.end ();
  ok = ok && begin (cv) == cv.begin () && end (cv) == cv.end ();
  ok = ok && cbegin (v) == v.cbegin () && cend (v) == v.cend ();
  ok = ok && rbegin (v) == v.rbegin () && rend (v) == v.rend ();
  ok = ok && rbegin (cv) == cv.rbegin () && rend (cv) == cv.rend ();
  ok = ok && crbegin (v) == v.crbegin () && crend (v) == v.crend ();
  ok = ok && size (v) == v.size () && empty (v) == v.empty ();
  ok = ok && raw (data (v)) == raw (v.data ()) && raw (data (cv)) == raw (cv.data ());
  ok = ok && static_cast<sz_t> (gch::ssize (v)) == v.size ();
  nm = ok;
  ok = mem_ok;
#endif
  return (ok ? 1 : 0) | (nm ? 2 : 0);
}

static long clamp30 (unsigned long long x) { return x > 0x3fffffffULL ? 0x3fffffffL : static_cast<long> (x); }

template <typename V>
static void probe_one (FILE *f, V &v)
{
  bool l = g_logging; g_logging = false;
  bool a = g_inj.armed; g_inj.armed = false;
  int st = store_of (v);
  fprintf (f, "{\"p\":true,\"e\":[");
  typename V::size_type n = v.size ();
  unsigned long long lim = n > 4096 ? 32 : n;      // long-run stimuli: log a short prefix only ("etrunc")
  for (unsigned long long i = 0; i < lim; ++i)
    fprintf (f, "%s[%d,%d]", i ? "," : "", val_of (raw (v.data ())[i]), mf_of (raw (v.data ())[i]));
  int va = n <= 4096 ? views_agree (v) : 3;
  fprintf (f, "],%s\"sz\":%ld,\"cap\":%ld,\"st\":%d,\"al\":%d,\"inl\":%s,\"inlb\":%s,\"max\":%ld,\"icap\":%ld,\"ok\":%s,\"nm\":%s}",
           n > 4096 ? "\"etrunc\":true," : "", clamp30 (n), clamp30 (v.capacity ()), st, alloc_id (v.get_allocator ()),
           v.inlined () ? "true" : "false", v.inlinable () ? "true" : "false",
           clamp30 (v.max_size ()), clamp30 (V::inline_capacity ()),
           (va & 1) ? "true" : "false", (va & 2) ? "true" : "false");
  g_logging = l; g_inj.armed = a;
}

static void probe_all (FILE *f)
{
  fprintf (f, "\"post\":{\"A\":");
  if (g_present[0]) probe_one (f, *slotA ()); else fprintf (f, "{\"p\":false}");
  fprintf (f, ",\"B\":");
  if (g_present[1]) probe_one (f, *slotB ()); else fprintf (f, "{\"p\":false}");
  fprintf (f, "},\"blocks\":[");
  bool first = true;
  for (int b = 0; b < g_nblk; ++b)
    if (g_blk[b].live)
      {
        fprintf (f, "%s[%d,%ld,%d]", first ? "" : ",", b + 1, clamp30 (g_blk[b].n), g_blk[b].aid);
        first = false;
      }
  fprintf (f, "],\"can\":%s", (all_zones_ok () && slot_zones_ok ()) ? "true" : "false");
}

// ------------------------------------------------------------------ op execution
struct OpResult
{
  const char *out;     // "ok" "length_error" "out_of_range" "injected" "bad_alloc" "other_exception" "skip"
  long ret;            // op-specific return (index / count / bitmask); -1 none
  std::vector<int> vals;   // fresh values used by the op (argument or range contents)
  int  ret2;
  std::vector<long> chain; long nalloc, nreloc; bool has_chain;
};

static std::vector<Elem> *g_src;       // source array for ranges (ext region, base 0)
static std::vector<Src>  *g_csrc;      // the same values as construct-only sources (range kind 7)
static Elem              *g_arg;       // single-value argument (ext region, index 100)

static void prepare_src (int len, OpResult &res)
{
  bool l = g_logging; g_logging = false;
  g_src->clear ();
  g_csrc->clear ();
  g_src->reserve (static_cast<size_t> (len) + 1);
  for (int i = 0; i < len; ++i)
    {
      int v = g_next_val++;
      res.vals.push_back (v);
      g_src->push_back (make_elem (v));
      Src cs = { v };
      g_csrc->push_back (cs);
    }
  g_logging = l;
  ext_register (g_src->data (), static_cast<size_t> (len), sizeof (Elem), 0);
}

static void prepare_arg (OpResult &res)
{
  bool l = g_logging; g_logging = false;
  int v = g_next_val++;
  res.vals.push_back (v);
  if (g_arg) { g_arg->~Elem (); }
  static typename std::aligned_storage<sizeof (Elem), alignof (Elem)>::type argmem;
  g_arg = ::new (static_cast<void *> (&argmem)) Elem (make_elem (v));
  g_logging = l;
  ext_register (g_arg, 1, sizeof (Elem), 100);
}

template <bool B> struct Bool { };

// Arms event logging and the fault injector for the duration of the library call.  Declared right
// before the call, so on an exception it is the first harness object to be unwound: destructors of
// harness-owned objects (initializer_list backing arrays, arguments) are never logged as the library's.
struct ArmGuard
{
  ArmGuard () { g_logging = true; g_inj.armed = true; }
  ~ArmGuard () { g_logging = false; g_inj.armed = false; }
};
#define ARM() ArmGuard arm_guard_; (void) arm_guard_

// -- ops that need CopyInsertable / CopyAssignable are routed through these so that move-only
//    flavours never instantiate them
template <typename V>
static bool op_copy_family (V &v, const Op &op, OpResult &res, Bool<false>)
{
  // element type is not copyable: only the calls that need copies are unavailable
  (void) v;
  static const char *const names[] = { "push_back", "emplace_back_c", "insert", "emplace_c", "insert_n", "resize_v", "assign_n" };
  for (unsigned i = 0; i < sizeof names / sizeof names[0]; ++i)
    if (! std::strcmp (op.name, names[i])) { res.out = "skip"; return true; }
  return false;
}

template <typename V>
static bool op_copy_family (V &v, const Op &op, OpResult &res, Bool<true>)
{
  typedef typename V::size_type sz_t;
  const char *nm = op.name;
  sz_t sz = v.size ();
  if (! std::strcmp (nm, "push_back"))
    {
      // a0: alias index (-1: fresh external lvalue)
      if (op.a[0] >= 0) { if (static_cast<sz_t> (op.a[0]) >= sz) { res.out = "skip"; return true; }
                          ARM ();
                          v.push_back (v[static_cast<sz_t> (op.a[0])]); }
      else { prepare_arg (res); ARM (); v.push_back (*g_arg); }
      res.ret = -1;
    }
  else if (! std::strcmp (nm, "emplace_back_c"))
    {
      // emplace_back (const T&): a0 alias index or -1
      const Elem *r;
      if (op.a[0] >= 0) { if (static_cast<sz_t> (op.a[0]) >= sz) { res.out = "skip"; return true; }
                          ARM ();
                          r = &v.emplace_back (v[static_cast<sz_t> (op.a[0])]); }
      else { prepare_arg (res); ARM (); r = &v.emplace_back (*g_arg); }
      res.ret = static_cast<long> (r - raw (v.data ()));
    }
  else if (! std::strcmp (nm, "insert"))
    {
      // a0 pos, a1 alias index or -1
      if (static_cast<sz_t> (op.a[0]) > sz) { res.out = "skip"; return true; }
      typename V::iterator it;
      if (op.a[1] >= 0) { if (static_cast<sz_t> (op.a[1]) >= sz) { res.out = "skip"; return true; }
                          ARM ();
                          it = v.insert (v.cbegin () + op.a[0], v[static_cast<sz_t> (op.a[1])]); }
      else { prepare_arg (res); ARM (); it = v.insert (v.cbegin () + op.a[0], *g_arg); }
      res.ret = static_cast<long> (it - v.begin ());
    }
  else if (! std::strcmp (nm, "emplace_c"))
    {
      if (static_cast<sz_t> (op.a[0]) > sz) { res.out = "skip"; return true; }
      typename V::iterator it;
      if (op.a[1] >= 0) { if (static_cast<sz_t> (op.a[1]) >= sz) { res.out = "skip"; return true; }
                          ARM ();
                          it = v.emplace (v.cbegin () + op.a[0], v[static_cast<sz_t> (op.a[1])]); }
      else { prepare_arg (res); ARM (); it = v.emplace (v.cbegin () + op.a[0], *g_arg); }
      res.ret = static_cast<long> (it - v.begin ());
    }
  else if (! std::strcmp (nm, "insert_n"))
    {
      // a0 pos, a1 count, a2 alias index or -1
      if (static_cast<sz_t> (op.a[0]) > sz) { res.out = "skip"; return true; }
      typename V::iterator it;
      if (op.a[2] >= 0) { if (static_cast<sz_t> (op.a[2]) >= sz) { res.out = "skip"; return true; }
                          ARM ();
                          it = v.insert (v.cbegin () + op.a[0], static_cast<sz_t> (op.a[1]), v[static_cast<sz_t> (op.a[2])]); }
      else { prepare_arg (res); ARM ();
             it = v.insert (v.cbegin () + op.a[0], static_cast<sz_t> (op.a[1]), *g_arg); }
      res.ret = static_cast<long> (it - v.begin ());
    }
  else if (! std::strcmp (nm, "resize_v"))
    {
      // a0 count, a1 alias index or -1
      if (op.a[1] >= 0) { if (static_cast<sz_t> (op.a[1]) >= sz) { res.out = "skip"; return true; }
                          ARM ();
                          v.resize (static_cast<sz_t> (op.a[0]), v[static_cast<sz_t> (op.a[1])]); }
      else { prepare_arg (res); ARM (); v.resize (static_cast<sz_t> (op.a[0]), *g_arg); }
    }
  else if (! std::strcmp (nm, "assign_n"))
    {
      prepare_arg (res); ARM ();
      v.assign (static_cast<sz_t> (op.a[0]), *g_arg);
    }
  else
    return false;
  return true;
}

// range-taking calls; W = 0 ctor (handled elsewhere), 1 assign, 2 insert, 3 append
template <typename V, typename It>
static void call_range (V &v, int what, long pos, It f, It l, OpResult &res)
{
  ARM ();
  if (what == 1) { v.assign (f, l); }
  else if (what == 2) { typename V::iterator it = v.insert (v.cbegin () + pos, f, l); res.ret = static_cast<long> (it - v.begin ()); }
#if ! CFG_VECTOR
  else if (what == 3) { v.append (f, l); }
#else
  else if (what == 3) { v.insert (v.cend (), f, l); }
#endif
}

// kinds: 0 input 1 forward 2 bidirectional 3 random access 4 pointer 5 move_iterator<pointer>
//        6 iterators of another container (std::vector here)  7 forward / 8 single-pass over construct-only sources (Src)
// Copying kinds are only instantiated for copyable element flavours.
template <typename V>
static bool range_copy_kinds (V &v, int what, long pos, int kind, int len, OpResult &res, Bool<false>)
{ (void) v; (void) what; (void) pos; (void) kind; (void) len; (void) res; return false; }

template <typename V>
static bool range_copy_kinds (V &v, int what, long pos, int kind, int len, OpResult &res, Bool<true>)
{
  const Elem *b = g_src->data ();
  switch (kind)
    {
    case 0: { StreamState st = { b, len, 0, false };
              struct Fin { OpResult &r; StreamState &s; ~Fin () { r.ret2 = s.cur; } } fin = { res, st };
              call_range (v, what, pos, StreamIt (&st, 0), StreamIt (), res); break; }
    case 1: call_range (v, what, pos, WalkIt<std::forward_iterator_tag> (b, len, 0), WalkIt<std::forward_iterator_tag> (b, len, len), res); break;
    case 2: call_range (v, what, pos, WalkIt<std::bidirectional_iterator_tag> (b, len, 0), WalkIt<std::bidirectional_iterator_tag> (b, len, len), res); break;
    case 3: call_range (v, what, pos, WalkIt<std::random_access_iterator_tag> (b, len, 0), WalkIt<std::random_access_iterator_tag> (b, len, len), res); break;
    case 4: call_range (v, what, pos, b, b + len, res); break;
    case 6: call_range (v, what, pos, g_src->cbegin (), g_src->cend (), res); break;
    default: return false;
    }
  return true;
}

template <typename V>
static bool op_range_family (V &v, const Op &, int what, long pos, int kind, int len, OpResult &res)
{
  prepare_src (len, res);
  if (kind == 5)
    {
      Elem *mb = g_src->data ();
      call_range (v, what, pos, std::make_move_iterator (mb), std::make_move_iterator (mb + len), res);
      return true;
    }
  if (kind == 8)
    {
      // single-pass range of construct-only sources (a mid-sequence insert buffers it in a temporary container first)
#if CFG_VECTOR
      return false;
#else
      StreamStateT<Src> st = { g_csrc->data (), len, 0, false };
      struct Fin { OpResult &r; StreamStateT<Src> &s; ~Fin () { r.ret2 = s.cur; } } fin = { res, st };
      call_range (v, what, pos, StreamItT<Src> (&st, 0), StreamItT<Src> (), res);
      return true;
#endif
    }
  if (kind == 7)
    {
      // forward range of construct-only sources: assign / append only (a mid-sequence insert assigns from *first,
      // and so do all of std::vector's range members but the constructor)
#if CFG_VECTOR
      return false;
#else
      if (what == 2) return false;
      typedef WalkIt<std::forward_iterator_tag, Src> It;
      const Src *cb = g_csrc->data ();
      if (what == 1) { ARM (); v.assign (It (cb, len, 0), It (cb, len, len)); }
      else           { ARM (); v.append (It (cb, len, 0), It (cb, len, len)); }
      return true;
#endif
    }
  return range_copy_kinds (v, what, pos, kind, len, res, Bool<ELEM_COPYABLE> ());
}

template <typename V>
static bool op_ilist_family (V &v, const Op &op, int what, long pos, int len, OpResult &res, Bool<false>)
{ (void) v; (void) op; (void) what; (void) pos; (void) len; res.out = "skip"; return true; }

template <typename V>
static bool op_ilist_family (V &v, const Op &, int what, long pos, int len, OpResult &res, Bool<true>)
{
  // initializer_list needs copyable elements.  The backing array is built before the op is armed.
  prepare_src (len > 6 ? 6 : len, res);
  const Elem *s = g_src->data ();
#define IL_CALL(IL)                                                                          \
  do { ext_register ((IL).begin (), (IL).size (), sizeof (Elem), 0);                          \
       ARM ();                                                 \
       if (what == 1) v.assign (IL);                                                         \
       else if (what == 4) v = (IL);                                                         \
       else if (what == 2) { typename V::iterator it = v.insert (v.cbegin () + pos, IL); res.ret = static_cast<long> (it - v.begin ()); } \
       else if (what == 3) { IL_APPEND (IL); } } while (0)
#if CFG_VECTOR
#define IL_APPEND(IL) v.insert (v.cend (), IL)
#else
#define IL_APPEND(IL) v.append (IL)
#endif
  g_next = 0;   // the source array itself is not what the container sees
  switch (len)
    {
    case 0: { std::initializer_list<Elem> il = { }; IL_CALL (il); break; }
    case 1: { std::initializer_list<Elem> il = { s[0] }; IL_CALL (il); break; }
    case 2: { std::initializer_list<Elem> il = { s[0], s[1] }; IL_CALL (il); break; }
    case 3: { std::initializer_list<Elem> il = { s[0], s[1], s[2] }; IL_CALL (il); break; }
    case 4: { std::initializer_list<Elem> il = { s[0], s[1], s[2], s[3] }; IL_CALL (il); break; }
    case 5: { std::initializer_list<Elem> il = { s[0], s[1], s[2], s[3], s[4] }; IL_CALL (il); break; }
    default: { std::initializer_list<Elem> il = { s[0], s[1], s[2], s[3], s[4], s[5] }; IL_CALL (il); break; }
    }
  return true;
}

template <typename V>
static bool op_default_family (V &v, const Op &op, OpResult &res, Bool<false>) { (void) v; (void) op; res.out = "skip"; return true; }
template <typename V>
static bool op_default_family (V &v, const Op &op, OpResult &, Bool<true>)
{
  ARM ();
  v.resize (static_cast<typename V::size_type> (op.a[0]));
  return true;
}

template <typename SzT>
static bool fits_size_type (long x) { return x >= 0 && static_cast<unsigned long long> (x) <= static_cast<unsigned long long> ((std::numeric_limits<SzT>::max) ()); }

// which argument of an op is a size_type count (no caller can pass a value that does not fit)
static int count_arg_index (const char *nm)
{
  if (! std::strcmp (nm, "insert_n")) return 1;
  if (! std::strcmp (nm, "assign_n") || ! std::strcmp (nm, "resize") || ! std::strcmp (nm, "resize_v")
      || ! std::strcmp (nm, "reserve") || ! std::strcmp (nm, "at")) return 0;
  if (! std::strcmp (nm, "ctor_n") || ! std::strcmp (nm, "ctor_nv") || ! std::strcmp (nm, "ctor_gen")) return 1;
  return -1;
}

template <typename V>
static void op_unary (V &v, const Op &op, OpResult &res)
{
  typedef typename V::size_type sz_t;
  const char *nm = op.name;
  sz_t sz = v.size ();
  res.ret = -1;
  { int ci = count_arg_index (nm); if (ci >= 0 && ! fits_size_type<sz_t> (op.a[ci])) { res.out = "skip"; return; } }

  if (op_copy_family (v, op, res, Bool<ELEM_COPYABLE> ()))
    return;

  if (! std::strcmp (nm, "push_back_m"))
    {
      prepare_arg (res); ARM ();
      v.push_back (std::move (*g_arg));
    }
  else if (! std::strcmp (nm, "emplace_back_v"))
    {
      // emplace_back (int): constructs in place from a value of another type
      int x = g_next_val++; res.vals.push_back (x);
      ARM ();
      const Elem *r = &v.emplace_back (x);
      res.ret = static_cast<long> (r - raw (v.data ()));
    }
  else if (! std::strcmp (nm, "insert_m"))
    {
      if (static_cast<sz_t> (op.a[0]) > sz) { res.out = "skip"; return; }
      prepare_arg (res); ARM ();
      typename V::iterator it = v.insert (v.cbegin () + op.a[0], std::move (*g_arg));
      res.ret = static_cast<long> (it - v.begin ());
    }
  else if (! std::strcmp (nm, "emplace_v"))
    {
      if (static_cast<sz_t> (op.a[0]) > sz) { res.out = "skip"; return; }
      int x = g_next_val++; res.vals.push_back (x);
      ARM ();
      typename V::iterator it = v.emplace (v.cbegin () + op.a[0], x);
      res.ret = static_cast<long> (it - v.begin ());
    }
  else if (! std::strcmp (nm, "assign_rng"))  { if (! op_range_family (v, op, 1, 0, static_cast<int> (op.a[0]), static_cast<int> (op.a[1]), res)) res.out = "skip"; }
  else if (! std::strcmp (nm, "insert_rng"))
    {
      if (static_cast<sz_t> (op.a[0]) > sz) { res.out = "skip"; return; }
      if (! op_range_family (v, op, 2, op.a[0], static_cast<int> (op.a[1]), static_cast<int> (op.a[2]), res)) res.out = "skip";
    }
  else if (! std::strcmp (nm, "append_rng"))  { if (! op_range_family (v, op, 3, 0, static_cast<int> (op.a[0]), static_cast<int> (op.a[1]), res)) res.out = "skip"; }
  else if (! std::strcmp (nm, "assign_il"))   op_ilist_family (v, op, 1, 0, static_cast<int> (op.a[0]), res, Bool<ELEM_COPYABLE> ());
  else if (! std::strcmp (nm, "opeq_il"))     op_ilist_family (v, op, 4, 0, static_cast<int> (op.a[0]), res, Bool<ELEM_COPYABLE> ());
  else if (! std::strcmp (nm, "insert_il"))
    {
      if (static_cast<sz_t> (op.a[0]) > sz) { res.out = "skip"; return; }
      op_ilist_family (v, op, 2, op.a[0], static_cast<int> (op.a[1]), res, Bool<ELEM_COPYABLE> ());
    }
  else if (! std::strcmp (nm, "append_il"))   op_ilist_family (v, op, 3, 0, static_cast<int> (op.a[0]), res, Bool<ELEM_COPYABLE> ());
  else if (! std::strcmp (nm, "erase"))
    {
      if (static_cast<sz_t> (op.a[0]) >= sz) { res.out = "skip"; return; }
      ARM ();
      typename V::iterator it = v.erase (v.cbegin () + op.a[0]);
      res.ret = static_cast<long> (it - v.begin ());
    }
  else if (! std::strcmp (nm, "erase_rng"))
    {
      if (op.a[0] > op.a[1] || static_cast<sz_t> (op.a[1]) > sz) { res.out = "skip"; return; }
      ARM ();
      typename V::iterator it = v.erase (v.cbegin () + op.a[0], v.cbegin () + op.a[1]);
      res.ret = static_cast<long> (it - v.begin ());
    }
  else if (! std::strcmp (nm, "pop_back"))
    {
      if (sz == 0) { res.out = "skip"; return; }
      ARM ();
      v.pop_back ();
    }
  else if (! std::strcmp (nm, "clear"))       { ARM (); v.clear (); }
  else if (! std::strcmp (nm, "resize"))      op_default_family (v, op, res, Bool<true> ());
  else if (! std::strcmp (nm, "reserve"))     { ARM (); v.reserve (static_cast<sz_t> (op.a[0])); }
  else if (! std::strcmp (nm, "shrink"))      { ARM (); v.shrink_to_fit (); }
  else if (! std::strcmp (nm, "at"))
    {
      // a1 (optional) selects an index far beyond any size: 1 = SIZE_MAX - a0, 2 = SIZE_MAX / 2 + 1 + a0 (the sign bit of the
      // difference type), 3 = SIZE_MAX / 2 - a0.  Both overloads are called; "out_of_range" only when BOTH threw it.
      const sz_t smax = static_cast<sz_t> (-1);
      const long mode = op.na > 1 ? op.a[1] : 0;
      const sz_t idx = mode == 1 ? static_cast<sz_t> (smax - static_cast<sz_t> (op.a[0]))
                     : mode == 2 ? static_cast<sz_t> (smax / 2 + 1 + static_cast<sz_t> (op.a[0]))
                     : mode == 3 ? static_cast<sz_t> (smax / 2 - static_cast<sz_t> (op.a[0]))
                     : static_cast<sz_t> (op.a[0]);
      ARM ();
      bool t1 = false, t2 = false;
      long r1 = -1, r2 = -1;
      try { r1 = val_of (v.at (idx)); } catch (const std::out_of_range &) { t1 = true; }
      const V &cv = v;
      try { r2 = val_of (cv.at (idx)); } catch (const std::out_of_range &) { t2 = true; }
      if (t1 && t2) throw std::out_of_range ("at: both overloads");
      res.ret = (t1 || t2 || r1 != r2) ? -7 : r1;
    }
  else if (! std::strcmp (nm, "push_n"))
    {
      // long append run (C14): a0 = count.  Element events are not logged; the capacity chain, the number of
      // allocations and the number of element relocations are reported instead.
      g_logging = false; g_inj.armed = false;
      int blocks0 = g_nblk;
      long reloc0 = g_cnt_reloc;
      res.chain.clear ();
      res.chain.reserve (128);      // the harness must not allocate inside the run (std::allocator traffic is attributed by call site)
      res.chain.push_back (static_cast<long> (v.capacity ()));
#if CFG_ALLOC == 0
      g_track_quiet = true;
#endif
      for (long i = 0; i < op.a[0]; ++i)
        {
          v.emplace_back (static_cast<int> (i & 0x7fff));
          if (static_cast<long> (v.capacity ()) != res.chain.back () && res.chain.size () < 128) res.chain.push_back (static_cast<long> (v.capacity ()));
        }
#if CFG_ALLOC == 0
      g_track_quiet = false;
#endif
      res.ret = op.a[0];
      res.nalloc = g_nblk - blocks0;
      res.nreloc = ELEM_TRACKED ? (g_cnt_reloc - reloc0) : -1;
      res.has_chain = true;
      g_ev_trunc = true;      // no element events were recorded for this call
    }
  else
    res.out = "skip";
}

// ---- constructors of slot c
#define CT(F, L) do { if (aid) ::new (mem) V (F, L, make_alloc (aid)); else ::new (mem) V (F, L); } while (0)
template <typename V>
static bool construct_copy_kinds (void *, int, int, int, OpResult &, Bool<false>) { return false; }
template <typename V>
static bool construct_copy_kinds (void *mem, int kind, int len, int aid, OpResult &res, Bool<true>)
{
  const Elem *b = g_src->data ();
  ARM ();
  switch (kind)
    {
    case 0: { StreamState st = { b, len, 0, false };
              struct Fin { OpResult &r; StreamState &s; ~Fin () { r.ret2 = s.cur; } } fin = { res, st };
              CT (StreamIt (&st, 0), StreamIt ()); break; }
    case 1: CT (WalkIt<std::forward_iterator_tag> (b, len, 0), WalkIt<std::forward_iterator_tag> (b, len, len)); break;
    case 2: CT (WalkIt<std::bidirectional_iterator_tag> (b, len, 0), WalkIt<std::bidirectional_iterator_tag> (b, len, len)); break;
    case 3: CT (WalkIt<std::random_access_iterator_tag> (b, len, 0), WalkIt<std::random_access_iterator_tag> (b, len, len)); break;
    case 4: CT (b, b + len); break;
    case 6: CT (g_src->cbegin (), g_src->cend ()); break;
    default: return false;
    }
  return true;
}

template <typename V>
static void construct_range (void *mem, int kind, int len, int aid, OpResult &res)
{
  prepare_src (len, res);
  if (kind == 5)
    {
      Elem *mb = g_src->data ();
      ARM ();
      CT (std::make_move_iterator (mb), std::make_move_iterator (mb + len));
      return;
    }
  if (kind == 7)
    {
      typedef WalkIt<std::forward_iterator_tag, Src> It;
      const Src *cb = g_csrc->data ();
      ARM ();
      CT (It (cb, len, 0), It (cb, len, len));
      return;
    }
  if (kind == 8)
    {
      StreamStateT<Src> st = { g_csrc->data (), len, 0, false };
      struct Fin { OpResult &r; StreamStateT<Src> &s; ~Fin () { r.ret2 = s.cur; } } fin = { res, st };
      ARM ();
      CT (StreamItT<Src> (&st, 0), StreamItT<Src> ());
      return;
    }
  if (! construct_copy_kinds<V> (mem, kind, len, aid, res, Bool<ELEM_COPYABLE> ())) res.out = "skip";
}
#undef CT

template <typename V> static void construct_copy_family (void *, const Op &, OpResult &res, Bool<false>) { res.out = "skip"; }
template <typename V>
static void construct_copy_family (void *mem, const Op &op, OpResult &res, Bool<true>)
{
  typedef typename V::size_type sz_t;
  const char *nm = op.name;
  int aid = static_cast<int> (op.a[0]);
  if (! std::strcmp (nm, "ctor_nv"))
    {
      prepare_arg (res); ARM ();
      if (aid) ::new (mem) V (static_cast<sz_t> (op.a[1]), *g_arg, make_alloc (aid));
      else     ::new (mem) V (static_cast<sz_t> (op.a[1]), *g_arg);
    }
  else if (! std::strcmp (nm, "ctor_il"))
    {
      int len = static_cast<int> (op.a[1]);
      prepare_src (len > 4 ? 4 : len, res);
      const Elem *s = g_src->data ();
      g_next = 0;
#define ILC(IL) do { ext_register ((IL).begin (), (IL).size (), sizeof (Elem), 0); ARM (); \
                     if (aid) ::new (mem) V (IL, make_alloc (aid)); else ::new (mem) V (IL); } while (0)
      switch (len)
        {
        case 0: { std::initializer_list<Elem> il = { }; ILC (il); break; }
        case 1: { std::initializer_list<Elem> il = { s[0] }; ILC (il); break; }
        case 2: { std::initializer_list<Elem> il = { s[0], s[1] }; ILC (il); break; }
        case 3: { std::initializer_list<Elem> il = { s[0], s[1], s[2] }; ILC (il); break; }
        default: { std::initializer_list<Elem> il = { s[0], s[1], s[2], s[3] }; ILC (il); break; }
        }
#undef ILC
    }
  else
    res.out = "skip";
}

template <typename V>
static void op_construct (void *mem, const Op &op, OpResult &res)
{
  typedef typename V::size_type sz_t;
  const char *nm = op.name;
  int aid = static_cast<int> (op.a[0]);
  res.ret = -1;
  { int ci = count_arg_index (nm); if (ci >= 0 && ! fits_size_type<sz_t> (op.a[ci])) { res.out = "skip"; return; } }
  if (! std::strcmp (nm, "ctor_def"))
    {
      ARM ();
      if (aid) ::new (mem) V (make_alloc (aid)); else ::new (mem) V ();
    }
  else if (! std::strcmp (nm, "ctor_n"))
    {
      ARM ();
      if (aid) ::new (mem) V (static_cast<sz_t> (op.a[1]), make_alloc (aid));
      else     ::new (mem) V (static_cast<sz_t> (op.a[1]));
    }
#if ! CFG_VECTOR
  else if (! std::strcmp (nm, "ctor_gen"))
    {
      int calls = 0;
      int base = g_next_val;
      for (long i = 0; i < op.a[1] && i < 64; ++i) res.vals.push_back (g_next_val++);
      Gen g = { &calls, base };
      EmptyGen eg;
      g_gen_calls = &calls; g_gen_base = base;
      const bool empty_class = (op.a[1] % 2) == 0;     // even counts: the generator is an empty class (same contract)
      ARM ();
      if (empty_class)
        {
          if (aid) ::new (mem) V (static_cast<sz_t> (op.a[1]), eg, make_alloc (aid));
          else     ::new (mem) V (static_cast<sz_t> (op.a[1]), eg);
        }
      else
        {
          if (aid) ::new (mem) V (static_cast<sz_t> (op.a[1]), g, make_alloc (aid));
          else     ::new (mem) V (static_cast<sz_t> (op.a[1]), g);
        }
      res.ret2 = calls;
    }
#endif
  else if (! std::strcmp (nm, "ctor_rng"))
    construct_range<V> (mem, static_cast<int> (op.a[1]), static_cast<int> (op.a[2]), aid, res);
  else
    construct_copy_family<V> (mem, op, res, Bool<ELEM_COPYABLE> ());
}

// ---- binary ops (d <- s); VD / VS may be different instantiations
template <typename VD, typename VS>
static void bin_swap (VD &, VS &, int, std::false_type) { }
template <typename VD>
static void bin_swap (VD &d, VD &s, int mode, std::true_type)
{
  if (mode == 0) d.swap (s);
  else { using std::swap; swap (d, s); }
}

#if CFG_VECTOR
template <typename VD, typename VS> static void bin_assign_copy (VD &d, const VS &s, std::false_type) { d.assign (s.begin (), s.end ()); }
#else
template <typename VD, typename VS> static void bin_assign_copy (VD &d, const VS &s, std::false_type) { d.assign (s); }
#endif
template <typename VD> static void bin_assign_copy (VD &d, const VD &s, std::true_type) { d = s; }
#if CFG_VECTOR
template <typename VD, typename VS> static void bin_assign_move (VD &d, VS &s, std::false_type) { d.assign (std::make_move_iterator (s.begin ()), std::make_move_iterator (s.end ())); }
#else
template <typename VD, typename VS> static void bin_assign_move (VD &d, VS &s, std::false_type) { d.assign (std::move (s)); }
#endif
template <typename VD> static void bin_assign_move (VD &d, VD &s, std::true_type) { d = std::move (s); }

template <typename VD, typename VS>
static long bin_compare (const VD &d, const VS &s)
{
  long m = 0;
  if (d == s) m |= 1;
  if (d != s) m |= 2;
  if (d <  s) m |= 4;
  if (d <= s) m |= 8;
  if (d >  s) m |= 16;
  if (d >= s) m |= 32;
#if defined (__cpp_impl_three_way_comparison) && defined (__cpp_lib_three_way_comparison)
  auto c = d <=> s;
  if (c < 0) m |= 64;
  if (c == 0) m |= 128;
  if (c > 0) m |= 256;
  m |= 512;
#endif
  return m;
}

template <typename VD, typename VS> static void bin_copy_family (VD &, VS &, const Op &, OpResult &res, Bool<false>) { res.out = "skip"; }
template <typename VD, typename VS>
static void bin_copy_family (VD &d, VS &s, const Op &op, OpResult &res, Bool<true>)
{
  const char *nm = op.name;
  typedef std::integral_constant<bool, std::is_same<VD, VS>::value> same_t;
  ARM ();
  if (! std::strcmp (nm, "assign_copy"))      bin_assign_copy (d, s, same_t ());
#if ! CFG_VECTOR
  else if (! std::strcmp (nm, "assign_copy_f")) d.assign (static_cast<const VS &> (s));     // assign() spelling
#endif
#if ! CFG_VECTOR
  else if (! std::strcmp (nm, "append_copy")) d.append (static_cast<const VS &> (s));
#else
  else if (! std::strcmp (nm, "append_copy")) { VS t (s); d.insert (d.cend (), t.begin (), t.end ()); }
#endif
  else res.out = "skip";
}

template <typename VD, typename VS>
static void op_binary (VD &d, VS &s, const Op &op, OpResult &res)
{
  const char *nm = op.name;
  typedef std::integral_constant<bool, std::is_same<VD, VS>::value> same_t;
  res.ret = -1;
  if (! std::strcmp (nm, "assign_move"))      { ARM (); bin_assign_move (d, s, same_t ()); }
#if ! CFG_VECTOR
  else if (! std::strcmp (nm, "assign_move_f")) { ARM (); d.assign (std::move (s)); }
  else if (! std::strcmp (nm, "append_move")) { ARM (); d.append (std::move (s)); }
#endif
  else if (! std::strcmp (nm, "swap"))
    {
      if (! same_t::value) { res.out = "skip"; return; }
      ARM ();
      bin_swap (d, s, static_cast<int> (op.a[0]), same_t ());
    }
  else if (! std::strcmp (nm, "cmp"))
    {
#if CFG_VECTOR
      if (! same_t::value) { res.out = "skip"; return; }
#endif
      ARM ();
      res.ret = bin_compare (d, s);
    }
  else
    bin_copy_family (d, s, op, res, Bool<ELEM_COPYABLE> ());
}

template <typename VD, typename VS> static void ctor_from_copy (void *, VS &, const Op &, OpResult &res, Bool<false>) { res.out = "skip"; }
template <typename VD, typename VS>
static void ctor_from_copy (void *mem, VS &s, const Op &op, OpResult &, Bool<true>)
{
  int aid = static_cast<int> (op.a[0]);
  ARM ();
  if (aid) ::new (mem) VD (static_cast<const VS &> (s), make_alloc (aid));
  else     ::new (mem) VD (static_cast<const VS &> (s));
}

template <typename VD, typename VS>
static void op_construct_from (void *mem, VS &s, const Op &op, OpResult &res)
{
  const char *nm = op.name;
  int aid = static_cast<int> (op.a[0]);
  res.ret = -1;
  if (! std::strcmp (nm, "ctor_copy"))
    ctor_from_copy<VD, VS> (mem, s, op, res, Bool<ELEM_COPYABLE> ());
  else if (! std::strcmp (nm, "ctor_move"))
    {
      ARM ();
      if (aid) ::new (mem) VD (std::move (s), make_alloc (aid));
      else     ::new (mem) VD (std::move (s));
    }
  else
    res.out = "skip";
}

// non-member erase / erase_if with explicit values, and explicit-value setup (C16)
template <typename V> static void op_values (V &, const Op &, OpResult &res, Bool<false>) { res.out = "skip"; }
template <typename V>
static void op_values (V &v, const Op &op, OpResult &res, Bool<true>)
{
  const char *nm = op.name;
  if (! std::strcmp (nm, "set_vals"))
    {
      bool l = g_logging; g_logging = false;
      std::vector<Elem> tmp;
      for (int i = 0; i < op.na; ++i) tmp.push_back (make_elem (static_cast<int> (op.a[i])));
      g_logging = l;
      ext_register (tmp.data (), tmp.size (), sizeof (Elem), 0);
      g_logging = true;
      v.assign (tmp.data (), tmp.data () + tmp.size ());
      g_logging = false;
    }
#if ! CFG_VECTOR
  else if (! std::strcmp (nm, "erase_val"))
    {
      if (op.na > 1 && op.a[1] != 0)
        {
          // a value of ANOTHER type: implicitly convertible to the element type, compared with elements by its own
          // heterogeneous operator== (no temporaries).  a1 = 1: equal to the element value a0; a1 = 2: equal to no element
          // at all, although it CONVERTS to the element value a0 (like 1.5 -> 1): nothing may be removed.
          const Needle needle = { static_cast<int> (op.a[0]), op.a[1] == 2 };
          ARM ();
          res.ret = static_cast<long> (erase (v, needle));
        }
      else
        {
          const Elem needle = make_elem (static_cast<int> (op.a[0]));     // harness-owned, outlives the logged call
          ARM ();
          res.ret = static_cast<long> (erase (v, needle));
        }
    }
  else if (! std::strcmp (nm, "erase_if"))
    {
      // predicate a0: 0 none, 1 all, 2 value is odd, 3 value < a1
      long kind = op.a[0], thr = op.a[1];
      ARM ();
      res.ret = static_cast<long> (erase_if (v, [kind, thr] (const Elem &e) {
                  int x = val_of (e);
                  return kind == 1 || (kind == 2 && (x & 1)) || (kind == 3 && x < thr); }));
    }
#endif
  else
    res.out = "skip";
}

// ------------------------------------------------------------------ debugger checkpoint (C20)
#ifndef CFG_GDB
#define CFG_GDB 0
#endif
#if CFG_GDB
// gdb stops here after every logged call and prints the containers / iterators below with the shipped printers
extern "C" __attribute__ ((noinline)) void gdb_checkpoint () { asm volatile ("" ::: "memory"); }
VA::iterator       g_gdb_it;          // refers to element g_gdb_it_index of slot A (or is value-initialised)
VA::const_iterator g_gdb_cit;
int                g_gdb_it_index = -1;
const char        *g_gdb_id = "";
int                g_gdb_idx = 0;
#endif

// ------------------------------------------------------------------ running one op, logging one line
static void refresh_geometry ()
{
  g_objlo[0] = reinterpret_cast<const char *> (g_mem[0].obj); g_objhi[0] = g_objlo[0] + sizeof (VA);
  g_objlo[1] = reinterpret_cast<const char *> (g_mem[1].obj); g_objhi[1] = g_objlo[1] + sizeof (VB);
  g_esz = sizeof (Elem);
}

static void compute_inline_offsets ()
{
  // where does the inline buffer live inside the object?  Ask a default-constructed container.
  bool l = g_logging; g_logging = false;
  g_inl[0] = g_inl[1] = 0;
#if ! CFG_VECTOR
  {
    VA *a = ::new (static_cast<void *> (g_mem[0].obj)) VA ();
    if (CFG_NA > 0 && raw (a->data ())) g_inl[0] = reinterpret_cast<const char *> (raw (a->data ()));
    a->~VA ();
    VB *b = ::new (static_cast<void *> (g_mem[1].obj)) VB ();
    if (CFG_NB > 0 && raw (b->data ())) g_inl[1] = reinterpret_cast<const char *> (raw (b->data ()));
    b->~VB ();
  }
#endif
  g_logging = l;
}

static void emit_events (FILE *f)
{
  fprintf (f, "\"evs\":[");
  for (int i = 0; i < g_nev; ++i)
    fprintf (f, "%s[%d,%d,%d,%d,%d,%d]", i ? "," : "", g_ev[i].code, g_ev[i].r, g_ev[i].i, g_ev[i].kind, g_ev[i].fr, g_ev[i].fi);
  fprintf (f, "],\"evtrunc\":%s,", g_ev_trunc ? "true" : "false");
}

static const char *slot_name (int c) { return c == 0 ? "A" : (c == 1 ? "B" : "-"); }

static bool is_ctor (const Op &op) { return ! std::strncmp (op.name, "ctor_", 5); }

// returns false when the stimulus must stop (skip)
static const char *g_last_out;
static bool run_op (const Stim &st, int idx, const Op &op, long k1, long k2, bool emit, long *nfall)
{
  OpResult res; res.out = "ok"; res.ret = -1; res.ret2 = -1; res.has_chain = false; res.nalloc = 0; res.nreloc = 0;
  g_nev = 0; g_ev_trunc = false; g_ntmp = 0; g_next = 0;
  g_inj.reset (k1, k2);

  // preconditions on slots
  bool ctor = is_ctor (op);
  bool dtor = ! std::strcmp (op.name, "dtor");
  if (ctor ? g_present[op.d] : ! g_present[op.d]) res.out = "skip";
  if (op.s >= 0 && ! g_present[op.s]) res.out = "skip";

  int hl = snprintf (g_hdr, sizeof g_hdr, "{\"t\":\"op\",\"id\":\"%s\",\"i\":%d,\"op\":\"%s\",\"c\":\"%s\",\"s\":\"%s\",\"a\":[",
                     st.id, idx, op.name, slot_name (op.d), slot_name (op.s));
  for (int i = 0; i < op.na; ++i) hl += snprintf (g_hdr + hl, sizeof g_hdr - static_cast<size_t> (hl), "%s%ld", i ? "," : "", op.a[i]);
  hl += snprintf (g_hdr + hl, sizeof g_hdr - static_cast<size_t> (hl), "],\"k\":[%ld,%ld],", k1, k2);

  if (std::strcmp (res.out, "skip"))
    {
      g_in_op = 1;
      alarm (20);
      try
        {
          if (dtor)
            {
              ARM ();
              if (op.d == 0) slotA ()->~VA (); else slotB ()->~VB ();
              g_present[op.d] = false;
            }
          else if (ctor && op.s >= 0)
            {
              if (op.d == 0 && op.s == 1) op_construct_from<VA, VB> (g_mem[0].obj, *slotB (), op, res);
              else if (op.d == 1 && op.s == 0) op_construct_from<VB, VA> (g_mem[1].obj, *slotA (), op, res);
              else res.out = "skip";
              if (std::strcmp (res.out, "skip")) g_present[op.d] = true;
            }
          else if (ctor)
            {
              if (op.d == 0) op_construct<VA> (g_mem[0].obj, op, res); else op_construct<VB> (g_mem[1].obj, op, res);
              if (std::strcmp (res.out, "skip")) g_present[op.d] = true;
            }
          else if (op.s >= 0)
            {
              if (op.d == 0 && op.s == 1) op_binary (*slotA (), *slotB (), op, res);
              else if (op.d == 1 && op.s == 0) op_binary (*slotB (), *slotA (), op, res);
              else if (op.d == 0) op_binary (*slotA (), *slotA (), op, res);
              else op_binary (*slotB (), *slotB (), op, res);
            }
          else if (! std::strcmp (op.name, "set_vals") || ! std::strcmp (op.name, "erase_val") || ! std::strcmp (op.name, "erase_if"))
            {
              if (op.d == 0) op_values (*slotA (), op, res, Bool<ELEM_COPYABLE> ()); else op_values (*slotB (), op, res, Bool<ELEM_COPYABLE> ());
            }
          else
            {
              if (op.d == 0) op_unary (*slotA (), op, res); else op_unary (*slotB (), op, res);
            }
        }
      catch (const InjectedFault &) { res.out = "injected"; }
      catch (const std::length_error &) { res.out = "length_error"; }
      catch (const std::out_of_range &) { res.out = "out_of_range"; }
      catch (const std::bad_alloc &) { res.out = "bad_alloc"; }
      catch (...) { res.out = "other_exception"; }
      alarm (0);
      g_logging = false; g_inj.armed = false;
      g_in_op = 0;
    }

  if (nfall) *nfall = g_inj.count;
  g_last_out = res.out;
  if (! std::strcmp (res.out, "skip"))
    {
      if (emit) fprintf (g_out, "{\"t\":\"skip\",\"id\":\"%s\",\"i\":%d,\"op\":\"%s\"}\n", st.id, idx, op.name);
      return false;
    }
  if (emit)
    {
      // The line is assembled in memory and written only when complete.  If probing the containers crashes,
      // the call just made left them in a state that cannot even be read: that is this call's outcome.
      static char *lbuf = static_cast<char *> (std::malloc (1 << 22));
      FILE *mf = fmemopen (lbuf, 1 << 22, "w");
      g_in_op = 2;
      alarm (20);
      fputs (g_hdr, mf);
      fprintf (mf, "\"fk\":[%d,%d],\"nf\":%ld,\"out\":\"%s\",\"ret\":%ld,\"ret2\":%d,\"v\":[", g_inj.fk1, g_inj.fk2, g_inj.count, res.out, res.ret, res.ret2);
      for (size_t i = 0; i < res.vals.size (); ++i) fprintf (mf, "%s%d", i ? "," : "", res.vals[i]);
      fprintf (mf, "],");
      if (res.has_chain)
        {
          fprintf (mf, "\"chain\":[");
          for (size_t i = 0; i < res.chain.size (); ++i) fprintf (mf, "%s%ld", i ? "," : "", clamp30 (static_cast<unsigned long long> (res.chain[i])));
          fprintf (mf, "],\"nalloc\":%ld,\"nreloc\":%ld,", res.nalloc, res.nreloc);
        }
      emit_events (mf);
      probe_all (mf);
      fprintf (mf, "}\n");
      long n = ftell (mf);
      fclose (mf);
      alarm (0);
      g_in_op = 0;
      fwrite (lbuf, 1, static_cast<size_t> (n), g_out);
#if CFG_GDB
      g_gdb_id = st.id; g_gdb_idx = idx;
      { volatile unsigned keep = VA::inline_capacity_v + VB::inline_capacity_v; (void) keep; }   // keep the static members in the debug info
      g_gdb_it = VA::iterator (); g_gdb_cit = VA::const_iterator (); g_gdb_it_index = -1;
      if (g_present[0] && slotA ()->size () > 0)
        {
          g_gdb_it_index = static_cast<int> (slotA ()->size () / 2);
          g_gdb_it = slotA ()->begin () + g_gdb_it_index;
          g_gdb_cit = slotA ()->cbegin () + g_gdb_it_index;
        }
      gdb_checkpoint ();
#endif
    }
  return true;
}

static void reset_all (bool emit, const char *id)
{
  bool l = g_logging; g_logging = false;
  if (g_present[0]) { slotA ()->~VA (); g_present[0] = false; }
  if (g_present[1]) { slotB ()->~VB (); g_present[1] = false; }
  g_logging = l;
  ledger_reset ();
  g_redzone_ok = true;
  slots_poison ();
  g_next_val = 1;
  if (emit) fprintf (g_out, "{\"t\":\"reset\",\"id\":\"%s\"}\n", id);
}

static void emit_snap (const char *id)
{
  static char *sbuf = static_cast<char *> (std::malloc (1 << 22));
  FILE *mf = fmemopen (sbuf, 1 << 22, "w");
  fprintf (mf, "{\"t\":\"snap\",\"id\":\"%s\",", id);
  probe_all (mf);
  fprintf (mf, "}\n");
  long n = ftell (mf);
  fclose (mf);
  fwrite (sbuf, 1, static_cast<size_t> (n), g_out);
}

// ------------------------------------------------------------------ stimulus file
// line:  S <id> <fmode> | name d s a0 a1 ... ; name d s a0 ... ; ...
static bool parse_stim (char *line, Stim &st)
{
  st.ops.clear ();
  char *save = 0;
  char *tok = strtok_r (line, " \t\n", &save);
  if (! tok || std::strcmp (tok, "S")) return false;
  tok = strtok_r (0, " \t\n", &save); if (! tok) return false;
  std::strncpy (st.id, tok, sizeof st.id - 1); st.id[sizeof st.id - 1] = 0;
  tok = strtok_r (0, " \t\n", &save); if (! tok) return false;
  st.fmode = std::atoi (tok);
  tok = strtok_r (0, " \t\n", &save); if (! tok || std::strcmp (tok, "|")) return false;
  for (;;)
    {
      tok = strtok_r (0, " \t\n", &save);
      if (! tok) break;
      Op op; std::memset (&op, 0, sizeof op);
      std::strncpy (op.name, tok, sizeof op.name - 1);
      tok = strtok_r (0, " \t\n", &save); if (! tok) return false;
      op.d = tok[0] == 'A' ? 0 : 1;
      tok = strtok_r (0, " \t\n", &save); if (! tok) return false;
      op.s = tok[0] == '-' ? -1 : (tok[0] == 'A' ? 0 : 1);
      op.na = 0;
      for (;;)
        {
          tok = strtok_r (0, " \t\n", &save);
          if (! tok || ! std::strcmp (tok, ";")) break;
          if (op.na < 12) op.a[op.na++] = std::atol (tok);
        }
      st.ops.push_back (op);
      if (! tok) break;
    }
  return ! st.ops.empty ();
}



static Op make_op (const char *name, int d, long a0 = 0, long a1 = 0, int na = 0)
{
  Op op; std::memset (&op, 0, sizeof op);
  std::strncpy (op.name, name, sizeof op.name - 1);
  op.d = d; op.s = -1; op.a[0] = a0; op.a[1] = a1; op.na = na;
  return op;
}

// One execution of a stimulus.  k1 = 0: every op is logged.  k1 > 0: the path is replayed silently,
// a snapshot line stands for it, the last op runs with the fault(s) armed.  After an injected exit the
// containers must still be usable (C06): a fixed suffix of ordinary, logged calls follows.  Every
// execution ends with logged destructor calls so that the lifetime / ledger accounts can be closed.
static bool run_stim (const Stim &st, long sidx, long k1, long k2, bool emit, long *nfall)
{
  int nops = static_cast<int> (st.ops.size ());
  if (emit)
    {
      fprintf (g_out, "{\"t\":\"stim\",\"id\":\"%s\",\"n\":%ld,\"k\":%ld,\"k2\":%ld}\n", st.id, sidx, k1, k2);
      fflush (g_out);
    }
  reset_all (emit, st.id);
  for (int i = 0; i < nops - 1; ++i)
    if (! run_op (st, i, st.ops[static_cast<size_t> (i)], 0, 0, emit && k1 == 0, 0)) return false;
  if (emit && k1 > 0) emit_snap (st.id);
  if (! run_op (st, nops - 1, st.ops[static_cast<size_t> (nops - 1)], k1, k2, emit, nfall)) return false;
  if (! emit) return true;
  int idx = nops;
  if (! std::strcmp (g_last_out, "injected"))
    for (int c = 0; c < 2; ++c)
      if (g_present[c])
        {
          run_op (st, idx++, make_op ("push_back_m", c), 0, 0, true, 0);
          run_op (st, idx++, ELEM_COPYABLE ? make_op ("assign_n", c, 2, 0, 1) : make_op ("resize", c, 1, 0, 1), 0, 0, true, 0);
          run_op (st, idx++, make_op ("clear", c), 0, 0, true, 0);
        }
  for (int c = 0; c < 2; ++c)
    if (g_present[c]) run_op (st, idx++, make_op ("dtor", c), 0, 0, true, 0);
  return true;
}

static void print_cfg ()
{
  long natural_max;
  {
    bool l = g_logging; g_logging = false;
    VA *a = ::new (static_cast<void *> (g_mem[0].obj)) VA ();
    natural_max = clamp30 (a->max_size ());
    a->~VA ();
    g_logging = l;
  }
#if defined (__clang__)
  const char *comp = "clang";
#else
  const char *comp = "gcc";
#endif
  int concepts = 0;
#ifdef GCH_LIB_CONCEPTS
  concepts = 1;
#endif
  fprintf (g_out,
           "{\"t\":\"cfg\",\"name\":\"%s\",\"na\":%d,\"nb\":%d,\"elem\":\"%s\",\"nothrowMove\":%s,\"copyable\":%s,\"hasMove\":%s,"
           "\"nothrowMoveCtor\":%s,\"nothrowMoveAssign\":%s,\"tracked\":%s,\"isStd\":%s,\"pocca\":%s,\"pocma\":%s,\"pocs\":%s,\"ae\":%s,\"construct\":%s,\"sizet\":%d,"
           "\"max\":%ld,\"allocMax\":%ld,\"diffMax\":%ld,\"soccc\":%d,\"std\":%ld,\"compiler\":\"%s\",\"concepts\":%d,\"vector\":%s,\"szA\":%zu,\"szB\":%zu,"
           "\"flt\":%s,\"defval\":%d,\"adlswap\":%s,\"nothrowCopy\":%s}\n",
           CFG_NAME, CFG_NA, CFG_NB, elem_name (), ELEM_NOTHROW_MOVE ? "true" : "false", ELEM_COPYABLE ? "true" : "false",
           ELEM_HAS_MOVE ? "true" : "false", ELEM_NOTHROW_MOVE_CTOR ? "true" : "false", ELEM_NOTHROW_MOVE_ASSIGN ? "true" : "false",
           ELEM_TRACKED ? "true" : "false", CFG_ALLOC == 0 ? "true" : "false",
           CFG_POCCA ? "true" : "false", CFG_POCMA ? "true" : "false", CFG_POCS ? "true" : "false",
           CFG_AE ? "true" : "false", CFG_CONSTRUCT ? "true" : "false", CFG_SIZET, natural_max,
           clamp30 (std::allocator_traits<Alloc>::max_size (make_alloc (1))),
           clamp30 (static_cast<unsigned long long> ((std::numeric_limits<std::allocator_traits<Alloc>::difference_type>::max) ())), CFG_SOCCC,
           static_cast<long> (__cplusplus), comp, concepts, CFG_VECTOR ? "true" : "false", sizeof (VA), sizeof (VB),
           CFG_ELEM == 9 ? "true" : "false", DEFVAL, ELEM_ADL_SWAP ? "true" : "false", ELEM_NOTHROW_COPY ? "true" : "false");
}

int main (int argc, char **argv)
{
  if (argc < 2) { fprintf (stderr, "usage: driver <stimuli> [start_stim [start_k [fmode]]]\n"); return 2; }
  long start_stim = argc > 2 ? std::atol (argv[2]) : 0;
  long start_k = argc > 3 ? std::atol (argv[3]) : 0;
  int  fmode_override = argc > 4 ? std::atoi (argv[4]) : -1;
  g_out = stdout;
  static char obuf[1 << 20];
  setvbuf (g_out, obuf, _IOFBF, sizeof obuf);
  std::set_terminate (on_terminate);
  std::signal (SIGSEGV, on_signal); std::signal (SIGBUS, on_signal); std::signal (SIGABRT, on_signal);
  std::signal (SIGALRM, on_signal); std::signal (SIGFPE, on_signal); std::signal (SIGILL, on_signal);

  std::vector<Elem> src; g_src = &src;
  std::vector<Src> csrc; g_csrc = &csrc;
#if CFG_ALLOC == 0
  g_track_new = true;
#endif
  slots_map ();
  refresh_geometry ();
  slots_poison ();
  compute_inline_offsets ();
  if (start_stim == 0 && start_k == 0) print_cfg ();

  FILE *in = std::fopen (argv[1], "r");
  if (! in) { perror (argv[1]); return 2; }
  static char line[1 << 16];
  Stim st;
  long sidx = -1;
  while (std::fgets (line, sizeof line, in))
    {
      if (line[0] != 'S') continue;
      ++sidx;
      if (sidx < start_stim) continue;
      if (! parse_stim (line, st)) { fprintf (stderr, "driver: bad stimulus line %ld\n", sidx); return 2; }
      if (fmode_override >= 0) st.fmode = fmode_override;
      long first_k = (sidx == start_stim) ? start_k : 0;
      long nfall = 0;

      // k = 0: the whole path is logged
      bool complete;
      if (first_k == 0)
        {
          complete = run_stim (st, sidx, 0, 0, true, &nfall);
          first_k = 1;
        }
      else    // restarted after a fatal outcome: rediscover the number of fault points silently
        complete = run_stim (st, sidx, 0, 0, false, &nfall);
      if (! complete || st.fmode == 0) continue;

      // single faults k = 1..F in the last op; the path is re-executed silently, a snapshot line
      // re-establishes the (already validated) pre-state for the spec
      for (long k = first_k; k <= nfall; ++k)
        {
          long nf2 = 0;
          if (! run_stim (st, sidx, k, 0, true, &nf2)) break;
          if (st.fmode >= 2)     // pairs: second fault after the first (roll-back / continuation)
            for (long k2 = k + 1; k2 <= nf2; ++k2)
              if (! run_stim (st, sidx, k, k2, true, 0)) break;
        }
    }
  reset_all (false, "");
  fprintf (g_out, "{\"t\":\"end\",\"stims\":%ld}\n", sidx + 1);
  fflush (g_out);
  return 0;
}
