// cx.cpp -- C08: constant evaluation == run time.
// Programs are DATA (arrays of Op) interpreted by ONE constexpr function, so thousands of programs cost one
// template instantiation.  For every program P_i the generated include defines
//     constexpr Digest D_i = run (P_i, n_i);          // must be a constant expression (the compiler's
//                                                     // evaluator is the UB / lifetime / leak detector)
// and main() prints the compile-time digest and the digest of the same interpreter executed at run time as
// two traces in the driver's ndjson format (fields that do not exist under constant evaluation -- data()
// classification, allocator blocks -- carry fixed dummy values and are ignored by the checks that use them).
//
// -DCX_NA -DCX_NB inline capacities, -DCX_ELEM 0 int | 1 literal class with non-trivial special members
#include <gch/small_vector.hpp>
#include <cstdio>
#include <optional>
#include <initializer_list>
#include <iterator>
#include <utility>

#ifndef CX_NA
#define CX_NA 2
#endif
#ifndef CX_NB
#define CX_NB 2
#endif
#ifndef CX_ELEM
#define CX_ELEM 0
#endif

struct Lit
{
  int v;
  int mf;
  constexpr Lit () : v (0), mf (0) { }
  constexpr Lit (int x) : v (x), mf (0) { }
  constexpr Lit (const Lit &o) : v (o.v), mf (o.mf) { }
  constexpr Lit (Lit &&o) noexcept : v (o.v), mf (o.mf) { o.mf = 1; }
  constexpr Lit &operator= (const Lit &o) { v = o.v; mf = o.mf; return *this; }
  constexpr Lit &operator= (Lit &&o) noexcept { if (this != &o) { v = o.v; mf = o.mf; o.mf = 1; } return *this; }
  constexpr ~Lit () { }
  friend constexpr bool operator== (const Lit &a, const Lit &b) { return a.v == b.v; }
  friend constexpr bool operator< (const Lit &a, const Lit &b) { return a.v < b.v; }
};

#if CX_ELEM == 0
typedef int Elem;
constexpr int val_of (const Elem &e) { return e; }
constexpr int mf_of (const Elem &) { return 0; }
#else
typedef Lit Elem;
constexpr int val_of (const Elem &e) { return e.v; }
constexpr int mf_of (const Elem &e) { return e.mf; }
#endif

typedef gch::small_vector<Elem, CX_NA> VA;
typedef gch::small_vector<Elem, CX_NB> VB;

enum Code { C_ctor_def, C_ctor_n, C_ctor_nv, C_ctor_rng, C_ctor_il, C_ctor_copy, C_ctor_move, C_dtor,
            C_push_back, C_push_back_m, C_emplace_back_c, C_emplace_back_v, C_insert, C_insert_m, C_emplace_c, C_emplace_v,
            C_insert_n, C_insert_rng, C_insert_il, C_append_rng, C_append_il, C_assign_n, C_assign_rng, C_assign_il, C_opeq_il,
            C_erase, C_erase_rng, C_pop_back, C_clear, C_resize, C_resize_v, C_reserve, C_shrink, C_at,
            C_assign_copy, C_assign_copy_f, C_assign_move, C_assign_move_f, C_swap, C_append_copy, C_append_move, C_cmp, C_ctor_gen, C_NUM };

static const char *const code_name[] = { "ctor_def", "ctor_n", "ctor_nv", "ctor_rng", "ctor_il", "ctor_copy", "ctor_move", "dtor",
  "push_back", "push_back_m", "emplace_back_c", "emplace_back_v", "insert", "insert_m", "emplace_c", "emplace_v",
  "insert_n", "insert_rng", "insert_il", "append_rng", "append_il", "assign_n", "assign_rng", "assign_il", "opeq_il",
  "erase", "erase_rng", "pop_back", "clear", "resize", "resize_v", "reserve", "shrink", "at",
  "assign_copy", "assign_copy_f", "assign_move", "assign_move_f", "swap", "append_copy", "append_move", "cmp", "ctor_gen" };

struct Op { int code; int d; int s; int na; int a[4]; };

enum { MAXSTEP = 10, MAXV = 32 };
struct Cont { int p; int sz; int cap; int inl; int inlb; int v[MAXV]; int mf[MAXV]; };
struct StepRec { int skipped; int ret; int ret2; int nv; int vals[MAXV]; Cont c[2]; };
struct Digest { int n; StepRec s[MAXSTEP]; };

template <typename V>
constexpr void snap (Cont &c, const std::optional<V> &o)
{
  c = Cont ();
  if (! o) return;
  c.p = 1;
  c.sz = static_cast<int> (o->size ());
  c.cap = static_cast<int> (o->capacity ());
  c.inl = o->inlined () ? 1 : 0;
  c.inlb = o->inlinable () ? 1 : 0;
  for (int i = 0; i < c.sz && i < MAXV; ++i) { c.v[i] = val_of ((*o)[static_cast<std::size_t> (i)]); c.mf[i] = mf_of ((*o)[static_cast<std::size_t> (i)]); }
}

struct Ctx { int next; StepRec *r; constexpr int fresh () { int x = next++; if (r->nv < MAXV) r->vals[r->nv++] = x; return x; } };

// -- unary operations on an existing container
template <typename V>
constexpr bool unary (V &v, const Op &op, Ctx &cx)
{
  typedef typename V::size_type sz_t;
  sz_t sz = v.size ();
  StepRec &r = *cx.r;
  switch (op.code)
    {
    case C_push_back:
      if (op.a[0] >= 0) { if (static_cast<sz_t> (op.a[0]) >= sz) return false; v.push_back (v[static_cast<sz_t> (op.a[0])]); }
      else { const Elem e (cx.fresh ()); v.push_back (e); }
      return true;
    case C_push_back_m: { Elem e (cx.fresh ()); v.push_back (std::move (e)); return true; }
    case C_emplace_back_c:
      {
        const Elem *p = nullptr;
        if (op.a[0] >= 0) { if (static_cast<sz_t> (op.a[0]) >= sz) return false; p = &v.emplace_back (v[static_cast<sz_t> (op.a[0])]); }
        else { const Elem e (cx.fresh ()); p = &v.emplace_back (e); }
        r.ret = static_cast<int> (p - v.data ());
        return true;
      }
    case C_emplace_back_v: { const Elem *p = &v.emplace_back (cx.fresh ()); r.ret = static_cast<int> (p - v.data ()); return true; }
    case C_insert: case C_emplace_c:
      {
        if (static_cast<sz_t> (op.a[0]) > sz) return false;
        typename V::iterator it;
        if (op.a[1] >= 0)
          {
            if (static_cast<sz_t> (op.a[1]) >= sz) return false;
            it = op.code == C_insert ? v.insert (v.cbegin () + op.a[0], v[static_cast<sz_t> (op.a[1])]) : v.emplace (v.cbegin () + op.a[0], v[static_cast<sz_t> (op.a[1])]);
          }
        else { const Elem e (cx.fresh ()); it = op.code == C_insert ? v.insert (v.cbegin () + op.a[0], e) : v.emplace (v.cbegin () + op.a[0], e); }
        r.ret = static_cast<int> (it - v.begin ());
        return true;
      }
    case C_insert_m: { if (static_cast<sz_t> (op.a[0]) > sz) return false; Elem e (cx.fresh ()); auto it = v.insert (v.cbegin () + op.a[0], std::move (e)); r.ret = static_cast<int> (it - v.begin ()); return true; }
    case C_emplace_v: { if (static_cast<sz_t> (op.a[0]) > sz) return false; auto it = v.emplace (v.cbegin () + op.a[0], cx.fresh ()); r.ret = static_cast<int> (it - v.begin ()); return true; }
    case C_insert_n:
      {
        if (static_cast<sz_t> (op.a[0]) > sz) return false;
        typename V::iterator it;
        if (op.a[2] >= 0) { if (static_cast<sz_t> (op.a[2]) >= sz) return false; it = v.insert (v.cbegin () + op.a[0], static_cast<sz_t> (op.a[1]), v[static_cast<sz_t> (op.a[2])]); }
        else { const Elem e (cx.fresh ()); it = v.insert (v.cbegin () + op.a[0], static_cast<sz_t> (op.a[1]), e); }
        r.ret = static_cast<int> (it - v.begin ());
        return true;
      }
    case C_insert_rng: case C_insert_il: case C_append_rng: case C_append_il: case C_assign_rng: case C_assign_il: case C_opeq_il:
      {
        // every range kind is replayed as a pointer range here (iterator categories are a run-time concern, C15)
        int len = op.code == C_insert_rng ? op.a[2] : (op.code == C_insert_il ? op.a[1] : (op.code == C_append_rng || op.code == C_assign_rng ? op.a[1] : op.a[0]));
        if (len > MAXV) return false;
        Elem src[MAXV + 1] = { };
        for (int i = 0; i < len; ++i) src[i] = Elem (cx.fresh ());
        if (op.code == C_insert_rng || op.code == C_insert_il)
          {
            if (static_cast<sz_t> (op.a[0]) > sz) return false;
            auto it = v.insert (v.cbegin () + op.a[0], src, src + len);
            r.ret = static_cast<int> (it - v.begin ());
          }
        else if (op.code == C_append_rng || op.code == C_append_il) v.append (src, src + len);
        else v.assign (src, src + len);
        return true;
      }
    case C_assign_n: { const Elem e (cx.fresh ()); v.assign (static_cast<sz_t> (op.a[0]), e); return true; }
    case C_erase: { if (static_cast<sz_t> (op.a[0]) >= sz) return false; auto it = v.erase (v.cbegin () + op.a[0]); r.ret = static_cast<int> (it - v.begin ()); return true; }
    case C_erase_rng: { if (op.a[0] > op.a[1] || static_cast<sz_t> (op.a[1]) > sz) return false; auto it = v.erase (v.cbegin () + op.a[0], v.cbegin () + op.a[1]); r.ret = static_cast<int> (it - v.begin ()); return true; }
    case C_pop_back: if (sz == 0) return false; v.pop_back (); return true;
    case C_clear: v.clear (); return true;
    case C_resize: v.resize (static_cast<sz_t> (op.a[0])); return true;
    case C_resize_v:
      if (op.a[1] >= 0) { if (static_cast<sz_t> (op.a[1]) >= sz) return false; v.resize (static_cast<sz_t> (op.a[0]), v[static_cast<sz_t> (op.a[1])]); }
      else { const Elem e (cx.fresh ()); v.resize (static_cast<sz_t> (op.a[0]), e); }
      return true;
    case C_reserve: v.reserve (static_cast<sz_t> (op.a[0])); return true;
    case C_shrink: v.shrink_to_fit (); return true;
    case C_at: if ((op.na > 1 && op.a[1] != 0) || static_cast<sz_t> (op.a[0]) >= sz) return false;   /* a throwing at() is no constant expression */   r.ret = val_of (v.at (static_cast<sz_t> (op.a[0]))); return true;
    default: return false;
    }
}

template <typename V>
constexpr bool construct (std::optional<V> &o, const Op &op, Ctx &cx)
{
  typedef typename V::size_type sz_t;
  switch (op.code)
    {
    case C_ctor_def: o.emplace (); return true;
    case C_ctor_n: o.emplace (static_cast<sz_t> (op.a[1])); return true;
    case C_ctor_nv: { const Elem e (cx.fresh ()); o.emplace (static_cast<sz_t> (op.a[1]), e); return true; }
    case C_ctor_gen: { int base = cx.next; for (int i = 0; i < op.a[1]; ++i) cx.fresh (); int calls = 0;
                       o.emplace (static_cast<sz_t> (op.a[1]), [&calls, base] () { return Elem (base + calls++); }); cx.r->ret2 = calls; return true; }
    case C_ctor_rng: case C_ctor_il:
      {
        int len = op.code == C_ctor_rng ? op.a[2] : op.a[1];
        if (len > MAXV) return false;
        Elem src[MAXV + 1] = { };
        for (int i = 0; i < len; ++i) src[i] = Elem (cx.fresh ());
        o.emplace (src, src + len);
        return true;
      }
    default: return false;
    }
}

template <typename VD, typename VS>
constexpr bool construct_from (std::optional<VD> &d, std::optional<VS> &s, const Op &op)
{
  if (op.code == C_ctor_copy) { d.emplace (static_cast<const VS &> (*s)); return true; }
  if (op.code == C_ctor_move) { d.emplace (std::move (*s)); return true; }
  return false;
}

template <typename VD, typename VS>
constexpr int compare (const VD &d, const VS &s)
{
  int m = 0;
  if (d == s) m |= 1;
  if (d != s) m |= 2;
  if (d <  s) m |= 4;
  if (d <= s) m |= 8;
  if (d >  s) m |= 16;
  if (d >= s) m |= 32;
  return m;
}

template <typename VD, typename VS>
constexpr bool binary_diff (VD &d, VS &s, const Op &op, Ctx &cx)
{
  switch (op.code)
    {
    case C_assign_copy: case C_assign_copy_f: d.assign (static_cast<const VS &> (s)); return true;
    case C_assign_move: case C_assign_move_f: d.assign (std::move (s)); return true;
    case C_append_copy: d.append (static_cast<const VS &> (s)); return true;
    case C_append_move: d.append (std::move (s)); return true;
    case C_cmp: cx.r->ret = compare (d, s); return true;
    default: return false;
    }
}

template <typename V>
constexpr bool binary_same (V &d, V &s, const Op &op, Ctx &cx)
{
  switch (op.code)
    {
    case C_assign_copy: d = static_cast<const V &> (s); return true;
    case C_assign_move: d = std::move (s); return true;
    case C_swap: if (op.a[0] == 0) d.swap (s); else swap (d, s); return true;
    default: return binary_diff (d, s, op, cx);
    }
}

template <typename VD, typename VS, bool Same = std::is_same<VD, VS>::value> struct Bin
{ static constexpr bool go (VD &d, VS &s, const Op &op, Ctx &cx) { return binary_diff (d, s, op, cx); } };
template <typename VD, typename VS> struct Bin<VD, VS, true>
{ static constexpr bool go (VD &d, VS &s, const Op &op, Ctx &cx) { return binary_same (d, s, op, cx); } };

constexpr Digest run (const Op *prog, int n)
{
  Digest D = Digest ();
  std::optional<VA> a;
  std::optional<VB> b;
  Ctx cx = { 1, nullptr };
  bool dead = false;
  for (int i = 0; i < n && i < MAXSTEP; ++i)
    {
      const Op &op = prog[i];
      StepRec &r = D.s[i];
      r.ret = -1; r.ret2 = -1;
      cx.r = &r;
      bool ok = false;
      if (! dead)
        {
          bool is_ctor = op.code <= C_ctor_move || op.code == C_ctor_gen;
          bool dp = op.d == 0 ? a.has_value () : b.has_value ();
          bool sp = op.s < 0 ? true : (op.s == 0 ? a.has_value () : b.has_value ());
          if ((is_ctor ? ! dp : dp) && sp)
            {
              if (op.code == C_dtor) { if (op.d == 0) a.reset (); else b.reset (); ok = true; }
              else if (op.code == C_ctor_copy || op.code == C_ctor_move)
                ok = (op.d == 0 && op.s == 1) ? construct_from (a, b, op) : ((op.d == 1 && op.s == 0) ? construct_from (b, a, op) : false);
              else if (is_ctor) ok = op.d == 0 ? construct (a, op, cx) : construct (b, op, cx);
              else if (op.s >= 0)
                {
                  if (op.d == 0 && op.s == 1) ok = Bin<VA, VB>::go (*a, *b, op, cx);
                  else if (op.d == 1 && op.s == 0) ok = Bin<VB, VA>::go (*b, *a, op, cx);
                  else if (op.d == 0) ok = Bin<VA, VA>::go (*a, *a, op, cx);
                  else ok = Bin<VB, VB>::go (*b, *b, op, cx);
                }
              else ok = op.d == 0 ? unary (*a, op, cx) : unary (*b, op, cx);
            }
        }
      if (! ok) { dead = true; r.skipped = 1; }
      snap (r.c[0], a);
      snap (r.c[1], b);
      D.n = i + 1;
    }
  return D;
}

#include "cx_progs.inc"     // constexpr Op P_i[] ...; constexpr Digest D_i = run (P_i, n_i);  table TAB[]

static void emit_cont (const Cont &c, unsigned N)
{
  if (! c.p) { std::printf ("{\"p\":false}"); return; }
  std::printf ("{\"p\":true,\"e\":[");
  for (int i = 0; i < c.sz && i < MAXV; ++i) std::printf ("%s[%d,%d]", i ? "," : "", c.v[i], c.mf[i]);
  std::printf ("],\"sz\":%d,\"cap\":%d,\"st\":0,\"al\":0,\"inl\":%s,\"inlb\":%s,\"max\":1073741823,\"icap\":%u,\"ok\":true,\"nm\":true}",
               c.sz, c.cap, c.inl ? "true" : "false", c.inlb ? "true" : "false", N);
}

static void emit (const char *mode, int pi, const Op *prog, const Digest &D)
{
  std::printf ("{\"t\":\"stim\",\"id\":\"%s%d\",\"n\":%d,\"k\":0,\"k2\":0}\n{\"t\":\"reset\",\"id\":\"%s%d\"}\n", mode, pi, pi, mode, pi);
  for (int i = 0; i < D.n; ++i)
    {
      const StepRec &r = D.s[i];
      const Op &op = prog[i];
      if (r.skipped) { std::printf ("{\"t\":\"skip\",\"id\":\"%s%d\",\"i\":%d,\"op\":\"%s\"}\n", mode, pi, i, code_name[op.code]); break; }
      std::printf ("{\"t\":\"op\",\"id\":\"%s%d\",\"i\":%d,\"op\":\"%s\",\"c\":\"%s\",\"s\":\"%s\",\"a\":[", mode, pi, i, code_name[op.code],
                   op.d == 0 ? "A" : "B", op.s < 0 ? "-" : (op.s == 0 ? "A" : "B"));
      for (int k = 0; k < op.na; ++k) std::printf ("%s%d", k ? "," : "", op.a[k]);
      std::printf ("],\"k\":[0,0],\"fk\":[0,0],\"nf\":0,\"out\":\"ok\",\"ret\":%d,\"ret2\":%d,\"v\":[", r.ret, r.ret2);
      for (int k = 0; k < r.nv; ++k) std::printf ("%s%d", k ? "," : "", r.vals[k]);
      std::printf ("],\"evs\":[],\"evtrunc\":false,\"post\":{\"A\":");
      emit_cont (r.c[0], CX_NA);
      std::printf (",\"B\":");
      emit_cont (r.c[1], CX_NB);
      std::printf ("},\"blocks\":[],\"can\":true}\n");
    }
}

int main (int argc, char **argv)
{
  bool rt = argc > 1 && argv[1][0] == 'r';
  std::printf ("{\"t\":\"cfg\",\"name\":\"cx-%s\",\"na\":%d,\"nb\":%d,\"elem\":\"%s\",\"nothrowMove\":true,\"copyable\":true,\"hasMove\":true,"
               "\"tracked\":false,\"isStd\":true,\"pocca\":false,\"pocma\":true,\"pocs\":false,\"ae\":true,\"construct\":false,\"sizet\":64,"
               "\"max\":1073741823,\"soccc\":0,\"std\":%ld,\"compiler\":\"%s\",\"concepts\":0,\"vector\":false,\"flt\":false,\"defval\":0,\"adlswap\":false,\"cx\":true}\n",
               rt ? "runtime" : "consteval", CX_NA, CX_NB, CX_ELEM ? "LIT" : "INT", static_cast<long> (__cplusplus),
#if defined (__clang__)
               "clang"
#else
               "gcc"
#endif
               );
  for (int i = 0; i < NPROG; ++i)
    {
      if (rt)
        {
          // the same interpreter, executed at run time (the volatile count defeats constant folding)
          volatile int n = TAB[i].n;
          Digest d = run (TAB[i].prog, n);
          emit ("p", i, TAB[i].prog, d);
        }
      else
        emit ("p", i, TAB[i].prog, *TAB[i].ct);
    }
  std::printf ("{\"t\":\"end\",\"stims\":%d}\n", NPROG);
  return 0;
}
