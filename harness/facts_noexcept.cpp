// facts_noexcept.cpp -- C18 (table half): dump the noexcept-ness of the documented operations and the
// iterator / nested-type facts for one (element traits, allocator traits) combination as ndjson.
// spec/Facts.tla holds the documented table (README "brief") and compares.
//   -DE_NMC / E_NMA / E_NSW: element has nothrow move ctor / move assign / swap
//   -DA_KIND: 0 std::allocator, 1 custom;  -DA_POCMA -DA_POCS -DA_AE -DA_DEFNOEX (custom only)
#include <gch/small_vector.hpp>
#include <cstdio>
#include <iterator>
#include <type_traits>
#include <memory>
#include <utility>

#ifndef E_NMC
#define E_NMC 1
#endif
#ifndef E_NMA
#define E_NMA 1
#endif
#ifndef E_NSW
#define E_NSW 1
#endif
#ifndef A_KIND
#define A_KIND 0
#endif
#ifndef A_POCMA
#define A_POCMA 0
#endif
#ifndef A_POCS
#define A_POCS 0
#endif
#ifndef A_AE
#define A_AE 0
#endif
#ifndef A_DEFNOEX
#define A_DEFNOEX 1
#endif

struct El
{
  int v;
  El () : v (0) { }
  El (const El &o) : v (o.v) { }
  El (El &&o) noexcept (E_NMC != 0) : v (o.v) { }
  El &operator= (const El &o) { v = o.v; return *this; }
  El &operator= (El &&o) noexcept (E_NMA != 0) { v = o.v; return *this; }
  ~El () { }
};
void swap (El &a, El &b) noexcept (E_NSW != 0) { int t = a.v; a.v = b.v; b.v = t; }

template <typename T>
struct CA
{
  typedef T value_type;
  typedef std::integral_constant<bool, A_POCMA != 0> propagate_on_container_move_assignment;
  typedef std::integral_constant<bool, A_POCS != 0> propagate_on_container_swap;
  typedef std::integral_constant<bool, A_AE != 0> is_always_equal;
  int id;
  CA () noexcept (A_DEFNOEX != 0) : id (0) { }
  template <typename U> CA (const CA<U> &o) noexcept : id (o.id) { }
  T *allocate (std::size_t n) { return static_cast<T *> (::operator new (n * sizeof (T))); }
  void deallocate (T *p, std::size_t) noexcept { ::operator delete (p); }
};
template <typename T, typename U> bool operator== (const CA<T> &a, const CA<U> &b) noexcept { return A_AE || a.id == b.id; }
template <typename T, typename U> bool operator!= (const CA<T> &a, const CA<U> &b) noexcept { return ! (a == b); }

#if A_KIND == 0
typedef std::allocator<El> Al;
#else
typedef CA<El> Al;
#endif

static const char *B (bool b) { return b ? "true" : "false"; }

template <unsigned N, unsigned I>
static void one (const char *op, bool val)
{
  std::printf ("{\"t\":\"noexcept\",\"op\":\"%s\",\"N\":%u,\"I\":%u,\"nmc\":%s,\"nma\":%s,\"nsw\":%s,\"isStd\":%s,\"pocma\":%s,"
               "\"pocs\":%s,\"ae\":%s,\"allocDefNoex\":%s,\"cpp\":%ld,\"val\":%s}\n",
               op, N, I, B (std::is_nothrow_move_constructible<El>::value), B (std::is_nothrow_move_assignable<El>::value),
               B (E_NSW != 0), B (A_KIND == 0), B (std::allocator_traits<Al>::propagate_on_container_move_assignment::value),
               B (std::allocator_traits<Al>::propagate_on_container_swap::value),
#if __cplusplus >= 201703L || defined (__cpp_lib_allocator_traits_is_always_equal)
               B (std::allocator_traits<Al>::is_always_equal::value),     // where the trait exists at all
#else
               B (false),
#endif
               B (noexcept (Al ())), static_cast<long> (__cplusplus), B (val));
}

template <unsigned N, unsigned I>
static void cross ()
{
  typedef gch::small_vector<El, N, Al> V;
  typedef gch::small_vector<El, I, Al> W;
  one<N, I> ("conv_move_ctor", noexcept (V (std::declval<W &&> ())));
  one<N, I> ("conv_move_assign", noexcept (std::declval<V &> ().assign (std::declval<W &&> ())));
  one<N, I> ("conv_copy_ctor", noexcept (V (std::declval<const W &> ())));
}

template <unsigned N>
static void same ()
{
  typedef gch::small_vector<El, N, Al> V;
  one<N, N> ("default_ctor", noexcept (V ()));
  one<N, N> ("alloc_ctor", noexcept (V (std::declval<const Al &> ())));
  one<N, N> ("move_ctor", noexcept (V (std::declval<V &&> ())));
  one<N, N> ("move_assign", noexcept (std::declval<V &> () = std::declval<V &&> ()));
  one<N, N> ("assign_rvalue", noexcept (std::declval<V &> ().assign (std::declval<V &&> ())));
  one<N, N> ("swap", noexcept (std::declval<V &> ().swap (std::declval<V &> ())));
  one<N, N> ("nonmember_swap", noexcept (swap (std::declval<V &> (), std::declval<V &> ())));
  one<N, N> ("clear", noexcept (std::declval<V &> ().clear ()));
  one<N, N> ("copy_ctor", noexcept (V (std::declval<const V &> ())));
  one<N, N> ("copy_assign", noexcept (std::declval<V &> () = std::declval<const V &> ()));
  one<N, N> ("push_back", noexcept (std::declval<V &> ().push_back (std::declval<const El &> ())));
  one<N, N> ("reserve", noexcept (std::declval<V &> ().reserve (1)));
  one<N, N> ("shrink_to_fit", noexcept (std::declval<V &> ().shrink_to_fit ()));
  one<N, N> ("pop_back", noexcept (std::declval<V &> ().pop_back ()));
  const bool observers =
       noexcept (std::declval<V &> ().begin ()) && noexcept (std::declval<const V &> ().begin ()) && noexcept (std::declval<const V &> ().cbegin ())
    && noexcept (std::declval<V &> ().end ()) && noexcept (std::declval<const V &> ().end ()) && noexcept (std::declval<const V &> ().cend ())
    && noexcept (std::declval<V &> ().rbegin ()) && noexcept (std::declval<const V &> ().rbegin ()) && noexcept (std::declval<const V &> ().crbegin ())
    && noexcept (std::declval<V &> ().rend ()) && noexcept (std::declval<const V &> ().rend ()) && noexcept (std::declval<const V &> ().crend ())
    && noexcept (std::declval<V &> ().data ()) && noexcept (std::declval<const V &> ().data ())
    && noexcept (std::declval<const V &> ().size ()) && noexcept (std::declval<const V &> ().empty ())
    && noexcept (std::declval<const V &> ().max_size ()) && noexcept (std::declval<const V &> ().capacity ())
    && noexcept (std::declval<const V &> ().get_allocator ()) && noexcept (std::declval<const V &> ().inlined ())
    && noexcept (std::declval<const V &> ().inlinable ()) && noexcept (V::inline_capacity ());
  one<N, N> ("observers", observers);

  typedef typename V::iterator It;
  typedef typename V::const_iterator CIt;
  bool nested =
       std::is_same<typename V::value_type, El>::value && std::is_same<typename V::allocator_type, Al>::value
    && std::is_same<typename V::reference, El &>::value && std::is_same<typename V::const_reference, const El &>::value
    && std::is_same<typename V::pointer, typename std::allocator_traits<Al>::pointer>::value
    && std::is_same<typename V::const_pointer, typename std::allocator_traits<Al>::const_pointer>::value
    && std::is_same<typename V::size_type, typename std::allocator_traits<Al>::size_type>::value
    && std::is_same<typename V::difference_type, typename std::allocator_traits<Al>::difference_type>::value
    && std::is_same<typename V::reverse_iterator, std::reverse_iterator<It>>::value
    && std::is_same<typename V::const_reverse_iterator, std::reverse_iterator<CIt>>::value;
  bool ra = std::is_same<typename std::iterator_traits<It>::iterator_category, std::random_access_iterator_tag>::value
         && std::is_same<typename std::iterator_traits<CIt>::iterator_category, std::random_access_iterator_tag>::value
         && std::is_same<typename std::iterator_traits<It>::value_type, El>::value
         && std::is_same<typename std::iterator_traits<It>::reference, El &>::value
         && std::is_same<typename std::iterator_traits<CIt>::reference, const El &>::value;
  bool contiguous = true;
  int have_contig = 0;
#if defined (__cpp_lib_concepts) && __cplusplus >= 202002L
  contiguous = std::contiguous_iterator<It> && std::contiguous_iterator<CIt>;
  have_contig = 1;
#endif
  std::printf ("{\"t\":\"itertraits\",\"N\":%u,\"trivIt\":%s,\"trivCIt\":%s,\"randomAccess\":%s,\"contiguous\":%s,\"haveContig\":%d,"
               "\"nested\":%s,\"convertible\":%s,\"cpp\":%ld}\n",
               N, B (std::is_trivially_copyable<It>::value), B (std::is_trivially_copyable<CIt>::value), B (ra), B (contiguous), have_contig,
               B (nested), B (std::is_convertible<It, CIt>::value && ! std::is_convertible<CIt, It>::value), static_cast<long> (__cplusplus));
}

int main ()
{
  same<0> (); same<2> ();
  cross<2, 1> (); cross<2, 3> (); cross<0, 2> (); cross<2, 0> (); cross<3, 2> ();
  return 0;
}
