// facts_layout.cpp -- C19: dump sizeof / alignof / default inline capacity / inline buffer offset of real
// instantiations as ndjson fact records; spec/Facts.tla evaluates the property on every record.
// One TU per (allocator state bytes LK, size_type bits LBITS); element types Blob<S, Al> for all S in 1..72
// and all alignments Al in {1,..,64} dividing S.
#include <gch/small_vector.hpp>
#include <cstdio>
#include <cstdint>
#include <cstddef>
#include <new>
#include <utility>

#ifndef LK
#define LK 0
#endif
#ifndef LBITS
#define LBITS 64
#endif

template <int Bits> struct SizeT;
template <> struct SizeT<8>  { typedef std::uint8_t  size_type; typedef std::int8_t  difference_type; };
template <> struct SizeT<16> { typedef std::uint16_t size_type; typedef std::int16_t difference_type; };
template <> struct SizeT<32> { typedef std::uint32_t size_type; typedef std::int32_t difference_type; };
template <> struct SizeT<64> { typedef std::size_t   size_type; typedef std::ptrdiff_t difference_type; };

template <unsigned K> struct State { unsigned char bytes[K]; };
template <> struct State<0> { };

template <typename T, unsigned K, int Bits>
struct StateAlloc : State<K>
{
  typedef T value_type;
  typedef typename SizeT<Bits>::size_type size_type;
  typedef typename SizeT<Bits>::difference_type difference_type;
  template <typename U> struct rebind { typedef StateAlloc<U, K, Bits> other; };
  StateAlloc () noexcept { }
  template <typename U> StateAlloc (const StateAlloc<U, K, Bits> &) noexcept { }
  T *allocate (size_type n) { return static_cast<T *> (::operator new (static_cast<std::size_t> (n) * sizeof (T))); }
  void deallocate (T *p, size_type) noexcept { ::operator delete (p); }
};
template <typename T, typename U, unsigned K, int B>
bool operator== (const StateAlloc<T, K, B> &, const StateAlloc<U, K, B> &) noexcept { return true; }
template <typename T, typename U, unsigned K, int B>
bool operator!= (const StateAlloc<T, K, B> &, const StateAlloc<U, K, B> &) noexcept { return false; }

template <unsigned S, unsigned Al>
struct alignas (Al) Blob { unsigned char b[S]; };

template <typename V>
static long inline_offset ()
{
  alignas (64) static unsigned char mem[sizeof (V) + 64];
  V *v = ::new (static_cast<void *> (mem)) V ();
  long off = v->data () ? static_cast<long> (reinterpret_cast<unsigned char *> (v->data ()) - mem) : -1;
  v->~V ();
  return off;
}

template <unsigned S, unsigned Al>
static void fact ()
{
  typedef Blob<S, Al> T;
  typedef StateAlloc<T, LK, LBITS> A;
  constexpr unsigned D = gch::default_buffer_size<A>::value;
  typedef gch::small_vector<T, D, A> VD;
  typedef gch::small_vector<T, D + 1, A> VD1;
  typedef gch::small_vector<T, 1, A> V1;
  typedef gch::small_vector<T, 0, A> V0;
  typedef gch::small_vector<T> VStd;     // std::allocator, default capacity
  std::printf ("{\"t\":\"layout\",\"S\":%u,\"Al\":%u,\"K\":%u,\"bits\":%d,\"sizeofT\":%zu,\"alignT\":%zu,\"D\":%u,"
               "\"szD\":%zu,\"szD1\":%zu,\"sz1\":%zu,\"sz0\":%zu,\"icap\":%u,\"icap1\":%u,\"inlOff\":%ld,\"alignV\":%zu,"
               "\"ptr\":%zu,\"ptrAlign\":%zu,\"szt\":%zu,\"allocEmpty\":%s,"
               "\"stdD\":%u,\"stdSzD\":%zu,\"stdSzD1\":%zu,\"stdSz1\":%zu,\"stdSz0\":%zu,\"target\":%d}\n",
               S, Al, static_cast<unsigned> (LK), LBITS, sizeof (T), alignof (T), D,
               sizeof (VD), sizeof (VD1), sizeof (V1), sizeof (V0),
               static_cast<unsigned> (VD::inline_capacity ()), static_cast<unsigned> (V1::inline_capacity ()),
               inline_offset<VD> (), alignof (VD), sizeof (typename VD::pointer), alignof (typename VD::pointer),
               sizeof (typename VD::size_type), std::is_empty<A>::value ? "true" : "false",
               gch::default_buffer_size<std::allocator<T>>::value, sizeof (VStd),
               sizeof (gch::small_vector<T, gch::default_buffer_size<std::allocator<T>>::value + 1>),
               sizeof (gch::small_vector<T, 1>), sizeof (gch::small_vector<T, 0>),
               static_cast<int> (GCH_SMALL_VECTOR_DEFAULT_SIZE));
}

template <unsigned S, unsigned Al, bool Valid = (S % Al == 0)> struct One { static void go () { fact<S, Al> (); } };
template <unsigned S, unsigned Al> struct One<S, Al, false> { static void go () { } };

template <unsigned S>
static void all_align ()
{
  One<S, 1>::go (); One<S, 2>::go (); One<S, 4>::go (); One<S, 8>::go ();
  One<S, 16>::go (); One<S, 32>::go (); One<S, 64>::go ();
}

template <unsigned S> struct Loop { static void go () { Loop<S - 1>::go (); all_align<S> (); } };
template <> struct Loop<0> { static void go () { } };

int main ()
{
  Loop<72>::go ();
  return 0;
}
