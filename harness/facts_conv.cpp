// facts_conv.cpp -- C13 (b): converting inputs.  For source/destination type pairs, build / assign / insert /
// append a small_vector<Dst> from values and ranges of Src through every source iterator kind (raw pointers
// and other contiguous iterators take the memcpy shortcut when the library thinks that is legal) and dump
// what was stored.  Values are written as little-endian 16-bit limbs of the object representation (TLC
// integers are 32-bit).  spec/Facts.tla computes static_cast<Dst>(src) itself for integral pairs (ConvLimbs)
// and compares; for floating point / pointer / enum pairs it compares against `exp`, the element-wise
// static_cast done by the compiler in a plain loop.
#include <gch/small_vector.hpp>
#include <cstdio>
#include <cstdint>
#include <cstring>
#include <vector>
#include <iterator>
#include <limits>
#include <type_traits>
#include <string>

template <typename T>
static void limbs (std::string &o, T v)
{
  unsigned char raw[sizeof (T)];
  std::memcpy (raw, &v, sizeof (T));
  o += "[";
  if (sizeof (T) == 1) { o += std::to_string (static_cast<unsigned> (raw[0])); }
  else
    for (size_t i = 0; i + 1 < sizeof (T); i += 2)
      {
        if (i) o += ",";
        o += std::to_string (static_cast<unsigned> (raw[i]) | (static_cast<unsigned> (raw[i + 1]) << 8));
      }
  o += "]";
}

template <typename T>
static std::string seq (const T *p, size_t n)
{
  std::string o = "[";
  for (size_t i = 0; i < n; ++i) { if (i) o += ","; limbs (o, p[i]); }
  return o + "]";
}

template <typename T> struct Arr      // plain array with a vector-like face (std::vector<bool> is not a container)
{
  T buf[64]; size_t n;
  Arr () : buf (), n (0) { }
  Arr (const T *b, const T *e) : buf (), n (0) { for (; b != e; ++b) buf[n++] = *b; }
  void push_back (const T &v) { buf[n++] = v; }
  void assign (const T *b, const T *e) { n = 0; for (; b != e; ++b) buf[n++] = *b; }
  T *data () { return buf; } const T *data () const { return buf; }
  size_t size () const { return n; }
  T &operator[] (size_t i) { return buf[i]; } const T &operator[] (size_t i) const { return buf[i]; }
};

#ifndef CONV_SVIT_DIFF
#define CONV_SVIT_DIFF 1     // 0: leave out "iterators of a small_vector of another type" (probe for a compile failure)
#endif
template <typename S, typename D> struct SvitOK : std::integral_constant<bool, CONV_SVIT_DIFF || std::is_same<S, D>::value> { };

template <typename S, typename V> static void svit_ctor (const S *b, const S *e, V *&o1, V *&o2, std::true_type)
{ gch::small_vector<S, 4> s (b, e); o1 = new V (s.begin (), s.end ()); o2 = new V (s.cbegin (), s.cend ()); }
template <typename S, typename V> static void svit_ctor (const S *, const S *, V *&o1, V *&o2, std::false_type) { o1 = o2 = 0; }

template <typename S, typename V> static void vecit_ctor (const S *b, const S *e, V *&out, std::false_type)
{ std::vector<S> s (b, e); out = new V (s.begin (), s.end ()); }
template <typename S, typename V> static void vecit_ctor (const S *, const S *, V *&out, std::true_type) { out = 0; }

template <typename T> struct Fwd   // forward iterator wrapper: always the generic element-wise path
{
  typedef std::forward_iterator_tag iterator_category;
  typedef T value_type; typedef std::ptrdiff_t difference_type; typedef const T *pointer; typedef const T &reference;
  const T *p;
  reference operator* () const { return *p; }
  Fwd &operator++ () { ++p; return *this; }
  Fwd operator++ (int) { Fwd t = *this; ++p; return t; }
  friend bool operator== (Fwd a, Fwd b) { return a.p == b.p; }
  friend bool operator!= (Fwd a, Fwd b) { return a.p != b.p; }
};

struct Kind { const char *name; int bits; int sgn; const char *kind; };

template <typename S, typename D, unsigned N>
static void emit (const char *op, const Kind &ks, const Kind &kd, const Arr<S> &in, const gch::small_vector<D, N> &got,
                  size_t from, size_t count)
{
  Arr<D> exp;
  for (size_t i = 0; i < in.size (); ++i) exp.push_back (static_cast<D> (in[i]));
  Arr<D> g; for (size_t i = 0; i < count; ++i) g.push_back (got[from + i]);
  std::printf ("{\"t\":\"conv\",\"op\":\"%s\",\"N\":%u,\"src\":\"%s\",\"dst\":\"%s\",\"sbits\":%d,\"ssigned\":%s,\"skind\":\"%s\","
               "\"dbits\":%d,\"dsigned\":%s,\"dkind\":\"%s\",\"n\":%zu,\"gotn\":%zu,\"in\":%s,\"got\":%s,\"exp\":%s,\"cpp\":%ld}\n",
               op, N, ks.name, kd.name, ks.bits, ks.sgn ? "true" : "false", ks.kind, kd.bits, kd.sgn ? "true" : "false", kd.kind,
               in.size (), g.size (), seq (in.data (), in.size ()).c_str (), seq (g.data (), g.size ()).c_str (),
               seq (exp.data (), exp.size ()).c_str (), static_cast<long> (__cplusplus));
}

template <typename S, typename D, unsigned N>
static void ops (const Kind &ks, const Kind &kd, const Arr<S> &in)
{
  typedef gch::small_vector<D, N> V;
  const S *b = in.data (); const S *e = b + in.size ();
  size_t n = in.size ();
  { V v (b, e); emit ("ctor_ptr", ks, kd, in, v, 0, v.size ()); }
  { Fwd<S> fb = { b }, fe = { e }; V v (fb, fe); emit ("ctor_fwd", ks, kd, in, v, 0, v.size ()); }
  { V *p1 = 0, *p2 = 0; svit_ctor<S, V> (b, e, p1, p2, SvitOK<S, D> ());
    if (p1) { emit ("ctor_svit", ks, kd, in, *p1, 0, p1->size ()); delete p1; }
    if (p2) { emit ("ctor_svcit", ks, kd, in, *p2, 0, p2->size ()); delete p2; } }
  { V *pv = 0; vecit_ctor<S, V> (b, e, pv, std::integral_constant<bool, std::is_same<S, bool>::value || ! SvitOK<S, D>::value> ()); if (pv) { emit ("ctor_vecit", ks, kd, in, *pv, 0, pv->size ()); delete pv; } }
  { Arr<S> s (b, e); V v (std::make_move_iterator (s.data ()), std::make_move_iterator (s.data () + n)); emit ("ctor_moveit", ks, kd, in, v, 0, v.size ()); }
  { V v (2, D ()); v.assign (b, e); emit ("assign_ptr", ks, kd, in, v, 0, v.size ()); }
  { V v (n + 3, D ()); v.assign (b, e); emit ("assign_ptr_shrink", ks, kd, in, v, 0, v.size ()); }
  { V v (3, D ()); v.insert (v.begin () + 1, b, e); emit ("insert_ptr_mid", ks, kd, in, v, 1, v.size () - 3); }
  { V v (3, D ()); v.reserve (n + 8); v.insert (v.begin () + 1, b, e); emit ("insert_ptr_mid_inplace", ks, kd, in, v, 1, v.size () - 3); }
  { V v (1, D ()); v.append (b, e); emit ("append_ptr", ks, kd, in, v, 1, v.size () - 1); }
  { V v; for (size_t i = 0; i < n; ++i) v.emplace_back (in[i]); emit ("emplace_back", ks, kd, in, v, 0, v.size ()); }
  { V v (2, D ()); for (size_t i = 0; i < n; ++i) v.emplace (v.begin () + 1 + static_cast<std::ptrdiff_t> (i), in[i]); emit ("emplace_mid", ks, kd, in, v, 1, v.size () - 2); }
}

template <typename S>
static Arr<S> boundary (std::true_type /*integral*/)
{
  typedef std::numeric_limits<S> L;
  long long cand[] = { 0, 1, 2, -1, -2, 127, 128, 129, 255, 256, -128, -129, 32767, 32768, 65535, 65536, -32768, -32769,
                       2147483647LL, 2147483648LL, -2147483648LL, 4294967295LL, 4294967296LL, 1000000007LL, -1000000007LL };
  Arr<S> v;
  for (size_t i = 0; i < sizeof cand / sizeof cand[0]; ++i)
    {
      long long c = cand[i];
      bool fits = std::is_same<S, bool>::value ? (c == 0 || c == 1)
                : (L::is_signed ? (c >= static_cast<long long> (L::min ()) && c <= static_cast<long long> (L::max ()))
                                : (c >= 0 && static_cast<unsigned long long> (c) <= static_cast<unsigned long long> (L::max ())));
      if (fits) v.push_back (static_cast<S> (c));
    }
  if (! std::is_same<S, bool>::value) { v.push_back (L::max ()); v.push_back (L::min ()); v.push_back (static_cast<S> (L::max () - 1)); }
  return v;
}

template <typename S, typename D>
static void pair (const Kind &ks, const Kind &kd, const Arr<S> &in)
{
  ops<S, D, 4> (ks, kd, in);      // heap for the value lists used here
  ops<S, D, 40> (ks, kd, in);     // inline
  ops<S, D, 0> (ks, kd, in);
}

enum E8 : std::uint8_t { E8a = 0, E8b = 1, E8c = 200, E8d = 255 };
enum ES16 : std::int16_t { ESa = -32768, ESb = -1, ESc = 0, ESd = 32767 };

struct Base1 { long a; virtual ~Base1 () { } };
struct Base2 { long b; virtual ~Base2 () { } };
struct Derived : Base1, Base2 { long c; };
// the same shapes WITHOUT virtual functions (nothing polymorphic about them, the second base is still displaced), and a
// virtual base of a class without virtual functions (displaced too)
struct PBase1 { long a; };
struct PBase2 { long b; };
struct PDerived : PBase1, PBase2 { long c; };
struct VBase { long x; };
struct VDerived : virtual VBase { long y; };

template <typename P> static long off_of (P p, const void *arr)
{ return p ? static_cast<long> (reinterpret_cast<const char *> (p) - reinterpret_cast<const char *> (arr)) : -1; }

template <typename SP, typename DP, unsigned N>
static void ptr_ops (const char *sname, const char *dname, Arr<SP> &in, const void *arr, size_t objsize = sizeof (Derived))
{
  typedef gch::small_vector<DP, N> V;
  struct Out { static void line (const char *op, const char *sn, const char *dn, const Arr<SP> &in, const V &got, size_t from, size_t cnt, const void *arr, size_t objsize)
    {
      std::string i = "[", g = "[", e = "[";
      for (size_t k = 0; k < in.size (); ++k) { if (k) { i += ","; e += ","; } i += std::to_string (off_of (in[k], arr)); e += std::to_string (off_of (static_cast<DP> (in[k]), arr)); }
      for (size_t k = 0; k < cnt; ++k) { if (k) g += ","; g += std::to_string (off_of (got[from + k], arr)); }
      std::printf ("{\"t\":\"convptr\",\"op\":\"%s\",\"N\":%u,\"src\":\"%s\",\"dst\":\"%s\",\"objsize\":%zu,\"in\":%s],\"got\":%s],\"exp\":%s],\"cpp\":%ld}\n",
                   op, N, sn, dn, objsize, i.c_str (), g.c_str (), e.c_str (), static_cast<long> (__cplusplus));
    } };
  SP *b = in.data (); SP *e = b + in.size ();
  { V v (b, e); Out::line ("ctor_ptr", sname, dname, in, v, 0, v.size (), arr, objsize); }
  { Fwd<SP> fb = { b }, fe = { e }; V v (fb, fe); Out::line ("ctor_fwd", sname, dname, in, v, 0, v.size (), arr, objsize); }
  { V *p1 = 0, *p2 = 0; svit_ctor<SP, V> (b, e, p1, p2, SvitOK<SP, DP> ());
    if (p1) { Out::line ("ctor_svit", sname, dname, in, *p1, 0, p1->size (), arr, objsize); delete p1; } if (p2) delete p2; }
  { V v (1, DP ()); v.assign (b, e); Out::line ("assign_ptr", sname, dname, in, v, 0, v.size (), arr, objsize); }
  { V v (2, DP ()); v.insert (v.begin () + 1, b, e); Out::line ("insert_ptr_mid", sname, dname, in, v, 1, v.size () - 2, arr, objsize); }
  { V v (1, DP ()); v.append (b, e); Out::line ("append_ptr", sname, dname, in, v, 1, v.size () - 1, arr, objsize); }
  { V v; for (size_t k = 0; k < in.size (); ++k) v.emplace_back (in[k]); Out::line ("emplace_back", sname, dname, in, v, 0, v.size (), arr, objsize); }
  { V v (2, DP ()); for (size_t k = 0; k < in.size (); ++k) v.emplace (v.begin () + 1 + static_cast<std::ptrdiff_t> (k), in[k]);
    Out::line ("emplace_mid", sname, dname, in, v, 1, v.size () - 2, arr, objsize); }
  { V v (3, DP ()); v.reserve (in.size () + 8); v.insert (v.begin () + 1, b, e); Out::line ("insert_ptr_mid_inplace", sname, dname, in, v, 1, v.size () - 3, arr, objsize); }
}

#define K(T, name, kind) Kind { name, static_cast<int> (std::is_same<T, bool>::value ? 1 : sizeof (T) * 8), std::numeric_limits<T>::is_signed ? 1 : 0, kind }

template <typename S>
static void from_integral (const char *sname)
{
  Kind ks = K (S, sname, "int");
  Arr<S> in = boundary<S> (std::true_type ());
  pair<S, std::int8_t> (ks, K (std::int8_t, "int8", "int"), in);
  pair<S, std::uint8_t> (ks, K (std::uint8_t, "uint8", "int"), in);
  pair<S, std::int16_t> (ks, K (std::int16_t, "int16", "int"), in);
  pair<S, std::uint16_t> (ks, K (std::uint16_t, "uint16", "int"), in);
  pair<S, std::int32_t> (ks, K (std::int32_t, "int32", "int"), in);
  pair<S, std::uint32_t> (ks, K (std::uint32_t, "uint32", "int"), in);
  pair<S, std::int64_t> (ks, K (std::int64_t, "int64", "int"), in);
  pair<S, std::uint64_t> (ks, K (std::uint64_t, "uint64", "int"), in);
  pair<S, bool> (ks, K (bool, "bool", "bool"), in);
  pair<S, char> (ks, K (char, "char", "int"), in);
  pair<S, char16_t> (ks, K (char16_t, "char16_t", "int"), in);
  pair<S, wchar_t> (ks, K (wchar_t, "wchar_t", "int"), in);
}

#ifndef PART
#define PART -1
#endif
int main ()
{
#if PART < 0 || PART == 0
  { from_integral<std::int8_t> ("int8"); from_integral<std::uint8_t> ("uint8"); from_integral<bool> ("bool"); from_integral<char> ("char"); }
#endif
#if PART < 0 || PART == 1
  { from_integral<std::int16_t> ("int16"); from_integral<std::uint16_t> ("uint16"); from_integral<char16_t> ("char16_t"); }
#endif
#if PART < 0 || PART == 2
  { from_integral<std::int32_t> ("int32"); from_integral<std::uint32_t> ("uint32"); from_integral<wchar_t> ("wchar_t"); }
#endif
#if PART < 0 || PART == 3
  { from_integral<std::int64_t> ("int64"); from_integral<std::uint64_t> ("uint64"); }
#endif
#if PART < 0 || PART == 4
    {
      // enums as sources
      { Arr<E8> in; in.push_back (E8a); in.push_back (E8b); in.push_back (E8c); in.push_back (E8d);
        Kind ks = { "enum8", 8, 0, "enum" };
        pair<E8, int> (ks, K (int, "int32", "int"), in); pair<E8, std::int8_t> (ks, K (std::int8_t, "int8", "int"), in);
        pair<E8, std::uint8_t> (ks, K (std::uint8_t, "uint8", "int"), in); pair<E8, long long> (ks, K (long long, "int64", "int"), in);
        pair<E8, E8> (ks, ks, in); }
      { Arr<ES16> in; in.push_back (ESa); in.push_back (ESb); in.push_back (ESc); in.push_back (ESd);
        Kind ks = { "enumS16", 16, 1, "enum" };
        pair<ES16, int> (ks, K (int, "int32", "int"), in); pair<ES16, std::uint16_t> (ks, K (std::uint16_t, "uint16", "int"), in);
        pair<ES16, std::int8_t> (ks, K (std::int8_t, "int8", "int"), in); pair<ES16, std::uint64_t> (ks, K (std::uint64_t, "uint64", "int"), in); }
      // floating point on exactly representable values (expected value from the compiler's static_cast)
      { Arr<float> in; float f[] = { 0.f, 1.f, -1.f, 2.5f, -2.5f, 127.f, 255.f, 1024.75f, -32768.f, 65535.f, 16777216.f };
        in.assign (f, f + sizeof f / sizeof f[0]); Kind ks = { "float", 32, 1, "float" };
        pair<float, double> (ks, Kind { "double", 64, 1, "float" }, in); pair<float, int> (ks, Kind { "int32", 32, 1, "fromfloat" }, in);
        pair<float, long long> (ks, Kind { "int64", 64, 1, "fromfloat" }, in); pair<float, float> (ks, ks, in); }
      { Arr<double> in; double f[] = { 0., 1., -1., 2.5, -2.5, 127., 255., 1024.75, -32768., 65535., 4294967296., 1e15 };
        in.assign (f, f + sizeof f / sizeof f[0]); Kind ks = { "double", 64, 1, "float" };
        pair<double, float> (ks, Kind { "float", 32, 1, "float" }, in); pair<double, long long> (ks, Kind { "int64", 64, 1, "fromfloat" }, in); }
      { Arr<int> in; int f[] = { 0, 1, -1, 255, -32768, 65535, 16777216, -16777216 };
        in.assign (f, f + sizeof f / sizeof f[0]); Kind ks = K (int, "int32", "int");
        pair<int, float> (ks, Kind { "float", 32, 1, "float" }, in); pair<int, double> (ks, Kind { "double", 64, 1, "float" }, in); }
      { Arr<long long> in; long long f[] = { 0, 1, -1, 1LL << 40, -(1LL << 40), 9007199254740992LL };
        in.assign (f, f + sizeof f / sizeof f[0]); Kind ks = K (long long, "int64", "int");
        pair<long long, double> (ks, Kind { "double", 64, 1, "float" }, in); }
      // pointers
      static Derived arr[4];
      { Arr<Derived *> in; for (int i = 0; i < 4; ++i) in.push_back (&arr[i]); in.push_back (0);
        ptr_ops<Derived *, Base1 *, 2> ("Derived*", "Base1*", in, arr); ptr_ops<Derived *, Base2 *, 2> ("Derived*", "Base2*", in, arr);
        ptr_ops<Derived *, Base2 *, 0> ("Derived*", "Base2*", in, arr); ptr_ops<Derived *, Base2 *, 8> ("Derived*", "Base2*", in, arr);
        ptr_ops<Derived *, const Base2 *, 2> ("Derived*", "const Base2*", in, arr);
        ptr_ops<Derived *, const Derived *, 2> ("Derived*", "const Derived*", in, arr);
        ptr_ops<Derived *, void *, 2> ("Derived*", "void*", in, arr); ptr_ops<Derived *, const void *, 2> ("Derived*", "const void*", in, arr);
        ptr_ops<Derived *, Derived *, 2> ("Derived*", "Derived*", in, arr); }
      static PDerived parr[4];
      { Arr<PDerived *> in; for (int i = 0; i < 4; ++i) in.push_back (&parr[i]); in.push_back (0);
        ptr_ops<PDerived *, PBase1 *, 2> ("PDerived*", "PBase1*", in, parr, sizeof (PDerived)); ptr_ops<PDerived *, PBase2 *, 2> ("PDerived*", "PBase2*", in, parr, sizeof (PDerived));
        ptr_ops<PDerived *, PBase2 *, 0> ("PDerived*", "PBase2*", in, parr, sizeof (PDerived)); ptr_ops<PDerived *, const PBase2 *, 8> ("PDerived*", "const PBase2*", in, parr, sizeof (PDerived)); }
      static VDerived varr[4];
      { Arr<VDerived *> in; for (int i = 0; i < 4; ++i) in.push_back (&varr[i]); in.push_back (0);
        ptr_ops<VDerived *, VBase *, 2> ("VDerived*", "VBase*", in, varr, sizeof (VDerived)); ptr_ops<VDerived *, const VBase *, 0> ("VDerived*", "const VBase*", in, varr, sizeof (VDerived)); }
      { Arr<Base2 *> in; for (int i = 0; i < 4; ++i) in.push_back (static_cast<Base2 *> (&arr[i]));
        ptr_ops<Base2 *, const Base2 *, 2> ("Base2*", "const Base2*", in, arr); ptr_ops<Base2 *, void *, 2> ("Base2*", "void*", in, arr); }
    }
#endif
  return 0;
}
