#!/bin/sh
# Offline setup: parse every specification with SANY; nothing here depends on /repo.
set -e
cd "$(dirname "$0")"
for m in SVecOracle ShapeRel SVec SVecMem SVecImpl SVecMC SVecOrder Growth ShapeInd Trace ImplTrace Facts Equiv CxEquiv; do
  ( cd spec && tla-sany $m.tla > /tmp/sany_$m.log 2>&1 ) || { cat /tmp/sany_$m.log; echo "setup: SANY failed on $m"; exit 1; }
  rm -f /tmp/sany_$m.log
done
python3 -c "import json,sys; json.load(open('MANIFEST.json')); json.load(open('known_findings.json'))"
echo "setup ok"
